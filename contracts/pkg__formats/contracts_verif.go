//go:build verif

// Contracts for package formats, read by /verif/govc (comment-only file).
package formats

// line sniffers (package-level list sniffFormats): each may use the scratch state
//@ interface sniffFormat.sniff(s sniffFormat, data []byte)
//@   holds stateMtx
//@   assigns global(state), (state)[*]

//@ func Sniffer.SniffReader
//@   props C04, C06
//@   requires f != nil
//@   requires forall i int :: 0 <= i && i < len(sniffFormats) ==> sniffFormats[i] != nil
//@   assigns global(state), (state)[*]
//@   ensures [C04:sniff:oneOf] (result1 == nil) != (result0 == "")

//@ func Sniffer.SniffFile
//@   props C04
//@   requires forall i int :: 0 <= i && i < len(sniffFormats) ==> sniffFormats[i] != nil
//@   assigns global(state), (state)[*]
//@   ensures [C04:sniff:oneOf] (result1 == nil) != (result0 == "")

//@ func spdxSniff.sniff
//@   props C04
//@   holds stateMtx
//@   requires state != nil
//@   assigns global(state), (state)[*]

//@ func cdxSniff.sniff
//@   props C04
//@   assigns \nothing

//@ global sniffFormats immutable-after-init
//@ global List immutable-after-init
//@ global ListFormats immutable-after-init
//@ global state guarded_by stateMtx
//@ global stateMtx trusted-concurrent
//@ package-props C17

//@ func cdxSniff.sniff
//@   holds stateMtx
//@ func Sniffer.sniff
//@   holds stateMtx
//@   requires forall i int :: 0 <= i && i < len(sniffFormats) ==> sniffFormats[i] != nil
//@ func initSniffState
//@   holds stateMtx
//@ func getSniffState
//@   holds stateMtx
//@ func setSniffState
//@   holds stateMtx
