//go:build verif

// Contracts for package formats, read by /verif/govc (comment-only file).
package formats
