//go:build verif

// Contracts for package cyclonedx (format helpers).
package cyclonedx
