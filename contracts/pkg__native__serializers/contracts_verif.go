//go:build verif

// Contracts for package serializers, read by /verif/govc (comment-only file).
package serializers

// ---------------------------------------------------------------------------
// C07: serializers are total on arbitrary documents; C11: they only read them
// ---------------------------------------------------------------------------

//@ func SPDX23.Serialize
//@   props C07, C11, C06, C03
//@   assigns \nothing
//@   ensures [C03:spdx:nodes:complete] result1 == nil && sbom.validNL(bom.NodeList) ==> (forall i int :: 0 <= i && i < len(bom.NodeList.Nodes) ==> ((bom.NodeList.Nodes[i].Id in fieldset(as(result0, *v2_3.Document).Packages, PackageSPDXIdentifier)) || (bom.NodeList.Nodes[i].Id in fieldset(as(result0, *v2_3.Document).Files, FileSPDXIdentifier))))
//@   ensures [C06:decl:spdx23] result1 == nil ==> typeis(result0, *v2_3.Document) && as(result0, *v2_3.Document) != nil && as(result0, *v2_3.Document).SPDXVersion == "SPDX-2.3"

// Render is handed what Serialize of the same driver returned (writer protocol)
//@ func SPDX23.Render
//@   props C07
//@   requires o != nil && typeis(doc, *v2_3.Document)
//@   assigns \nothing

//@ func CDX.Serialize
//@   props C07, C11, C06, C03
//@   assigns \nothing
//@   ensures [C06:decl:cdx] result1 == nil ==> typeis(result0, *cyclonedx.BOM) && as(result0, *cyclonedx.BOM) != nil && as(result0, *cyclonedx.BOM).BOMFormat == "CycloneDX"
//@   invariant L0: doc != nil && rootfresh(doc) && doc.Metadata != nil && rootfresh(doc.Metadata) && doc.Metadata.Lifecycles != nil && rootfresh(doc.Metadata.Lifecycles) && (arr(*doc.Metadata.Lifecycles) == nil || rootfresh(arr(*doc.Metadata.Lifecycles)))

//@ func CDX.Render
//@   props C07
//@   requires o != nil
//@   assigns \nothing

//@ func clearAutoRefs
//@   props C07
//@   requires comps != nil
//@   assigns anyelems(cyclonedx.Component)

// the per-call serializer state: every component in the dictionary was built
// by this call (fresh), and so are the sub-component lists hanging off them
//@ pred cdxStateOK(s *serializerCDXState) = s != nil && rootfresh(s) && s.addedDict != nil && s.componentsDict != nil && rootfresh(s.addedDict) && rootfresh(s.componentsDict) && (forall k string :: (k in s.componentsDict) ==> s.componentsDict[k] != nil && rootfresh(s.componentsDict[k]) && (s.componentsDict[k].Components == nil || (rootfresh(s.componentsDict[k].Components) && (arr(*s.componentsDict[k].Components) == nil || rootfresh(arr(*s.componentsDict[k].Components))))))

//@ func CDX.componentsMaps
//@   inline
//@   invariant L0: cdxStateOK(state)

//@ func CDX.dependencies
//@   props C03
//@   inline
//@   requires [C03:pre] bom != nil && bom.NodeList != nil && sbom.validNL(bom.NodeList) && len(bom.NodeList.RootElements) >= 1
//@   invariant L0: [ser@inlined] cdxStateOK(state)
//@   invariant L1: [ser@inlined] cdxStateOK(state)
//@   invariant L2: [ser@inlined] cdxStateOK(state)
// C03: every dependsOn edge yields a dependency entry for its source
// (the first invariant is a trigger hint: it mentions the last entry so that the solver has
// the witness term for the existential at hand after an append)
//@   invariant L0: [C03:inv@root] len(dependencies) == 0 || len(dependencies[len(dependencies) - 1].Ref) >= 0
//@   invariant L0: [C03:inv@root] forall i int :: 0 <= i && i < _i && bom.NodeList.Edges[i].Type == 10 ==> (exists d int :: 0 <= d && d < len(dependencies) && dependencies[d].Ref == bom.NodeList.Edges[i].From)
//@   invariant L1: [C03:inv@root] forall i int :: 0 <= i && i < _i1 && bom.NodeList.Edges[i].Type == 10 ==> (exists d int :: 0 <= d && d < len(dependencies) && dependencies[d].Ref == bom.NodeList.Edges[i].From)
//@   invariant L2: [C03:inv@root] forall i int :: 0 <= i && i < _i1 && bom.NodeList.Edges[i].Type == 10 ==> (exists d int :: 0 <= d && d < len(dependencies) && dependencies[d].Ref == bom.NodeList.Edges[i].From)
// C03: a node is withheld from the top-level component list (marked in addedDict)
// only if it is the root or the target of a contains edge, i.e. nested under its parent
//@   invariant L0: [C03:inv@inlined] (forall k string :: (k in state.addedDict) ==> k == bom.NodeList.RootElements[0] || (exists i int, j int :: 0 <= i && i < len(bom.NodeList.Edges) && bom.NodeList.Edges[i].Type == 5 && 0 <= j && j < len(bom.NodeList.Edges[i].To) && bom.NodeList.Edges[i].To[j] == k))
//@   invariant L1: [C03:inv@inlined] (forall k string :: (k in state.addedDict) ==> k == bom.NodeList.RootElements[0] || (exists i int, j int :: 0 <= i && i < len(bom.NodeList.Edges) && bom.NodeList.Edges[i].Type == 5 && 0 <= j && j < len(bom.NodeList.Edges[i].To) && bom.NodeList.Edges[i].To[j] == k))
//@   invariant L2: [C03:inv@inlined] (forall k string :: (k in state.addedDict) ==> k == bom.NodeList.RootElements[0] || (exists i int, j int :: 0 <= i && i < len(bom.NodeList.Edges) && bom.NodeList.Edges[i].Type == 5 && 0 <= j && j < len(bom.NodeList.Edges[i].To) && bom.NodeList.Edges[i].To[j] == k))

//@ func serializerCDXState.components
//@   inline
//@   invariant L0: cdxStateOK(s)

// ---------------------------------------------------------------------------
// C03 (no silent drop): every non-file node yields an SPDX package carrying its
// identifier; C01: where each attribute of the node lands in the package
// ---------------------------------------------------------------------------
//@ fieldset-of spdx/tools-golang/spdx/v2/v2_3.Package: PackageSPDXIdentifier
//@ fieldset-of spdx/tools-golang/spdx/v2/v2_3.File: FileSPDXIdentifier

//@ pred spdxFileOf(f *v2_3.File, n *sbom.Node) = f.FileSPDXIdentifier == n.Id && f.FileName == n.Name && f.LicenseConcluded == n.LicenseConcluded && f.LicenseComments == n.LicenseComments && f.FileComment == n.Comment && f.FileTypes == n.FileTypes

//@ func buildFiles
//@   props C03, C01
//@   inline
//@   requires [C03:pre] bom != nil && bom.NodeList != nil && sbom.validNL(bom.NodeList)
//@   ensures [C01:spdx:file:scalars] result1 == nil ==> ((forall u int :: 0 <= u && u < len(bom.NodeList.Nodes) ==> !(bom.NodeList.Nodes[u].Id in fieldsetn(bom.NodeList.Nodes, Id, u))) ==> (forall f *v2_3.File, i int :: (f in elems(result0)) && 0 <= i && i < len(bom.NodeList.Nodes) && bom.NodeList.Nodes[i].Type != 0 && f.FileSPDXIdentifier == bom.NodeList.Nodes[i].Id ==> spdxFileOf(f, bom.NodeList.Nodes[i])))
//@   invariant L0: [C01:inv] !(nil in elems(files)) && (forall f *v2_3.File :: (f in elems(files)) ==> fresh(f) && (f.FileSPDXIdentifier in fieldsetn(bom.NodeList.Nodes, Id, _i)))
//@   invariant L0: [C01:inv] (forall u int :: 0 <= u && u < len(bom.NodeList.Nodes) ==> !(bom.NodeList.Nodes[u].Id in fieldsetn(bom.NodeList.Nodes, Id, u))) ==> (forall f *v2_3.File, i int :: (f in elems(files)) && 0 <= i && i < len(bom.NodeList.Nodes) && bom.NodeList.Nodes[i].Type != 0 && f.FileSPDXIdentifier == bom.NodeList.Nodes[i].Id ==> spdxFileOf(f, bom.NodeList.Nodes[i]))
//@   ensures [C03:spdx:files:complete] result1 == nil ==> (forall i int :: 0 <= i && i < len(bom.NodeList.Nodes) && bom.NodeList.Nodes[i].Type != 0 ==> (bom.NodeList.Nodes[i].Id in fieldset(result0, FileSPDXIdentifier)))
//@   invariant L0: [C03:inv] forall i int :: 0 <= i && i < _i && bom.NodeList.Nodes[i].Type != 0 ==> (bom.NodeList.Nodes[i].Id in fieldset(files, FileSPDXIdentifier))

// where the scalar attributes of a node must land in its SPDX package (written from the attribute list of C01)
//@ pred spdxPkgOf(p *v2_3.Package, n *sbom.Node) = p.PackageSPDXIdentifier == n.Id && p.PackageName == n.Name && p.PackageVersion == n.Version && p.PackageFileName == n.FileName && p.PackageHomePage == n.UrlHome && p.PackageLicenseConcluded == n.LicenseConcluded && p.PackageLicenseComments == n.LicenseComments && p.PackageSourceInfo == n.SourceInfo && p.PackageSummary == n.Summary && p.PackageDescription == n.Description && p.PackageComment == n.Comment && p.PackageDownloadLocation == (n.UrlDownload == "" ? "NOASSERTION" : n.UrlDownload)

//@ func SPDX23.buildPackages
//@   props C03, C01
//@   inline
//@   requires [C03:pre] bom != nil && bom.NodeList != nil && sbom.validNL(bom.NodeList)
//@   ensures [C03:spdx:packages:complete] result1 == nil ==> (forall i int :: 0 <= i && i < len(bom.NodeList.Nodes) && bom.NodeList.Nodes[i].Type != 1 ==> (bom.NodeList.Nodes[i].Id in fieldset(result0, PackageSPDXIdentifier)))
//@   ensures [C01:spdx:package:scalars] result1 == nil ==> ((forall u int :: 0 <= u && u < len(bom.NodeList.Nodes) ==> !(bom.NodeList.Nodes[u].Id in fieldsetn(bom.NodeList.Nodes, Id, u))) ==> (forall p *v2_3.Package, i int :: (p in elems(result0)) && 0 <= i && i < len(bom.NodeList.Nodes) && bom.NodeList.Nodes[i].Type != 1 && p.PackageSPDXIdentifier == bom.NodeList.Nodes[i].Id ==> spdxPkgOf(p, bom.NodeList.Nodes[i])))
//@   ensures [C01:spdx:package:dates] result1 == nil ==> ((forall u int :: 0 <= u && u < len(bom.NodeList.Nodes) ==> !(bom.NodeList.Nodes[u].Id in fieldsetn(bom.NodeList.Nodes, Id, u))) ==> (forall p *v2_3.Package, i int :: (p in elems(result0)) && 0 <= i && i < len(bom.NodeList.Nodes) && bom.NodeList.Nodes[i].Type != 1 && p.PackageSPDXIdentifier == bom.NodeList.Nodes[i].Id ==> (bom.NodeList.Nodes[i].ReleaseDate != nil ==> p.ReleaseDate == time.Time.Format(time.Time.UTC(timestamppb.Timestamp.AsTime(bom.NodeList.Nodes[i].ReleaseDate)), "2006-01-02T15:04:05Z07:00")) && (bom.NodeList.Nodes[i].BuildDate != nil ==> p.BuiltDate == time.Time.Format(time.Time.UTC(timestamppb.Timestamp.AsTime(bom.NodeList.Nodes[i].BuildDate)), "2006-01-02T15:04:05Z07:00")) && (bom.NodeList.Nodes[i].ValidUntilDate != nil ==> p.ValidUntilDate == time.Time.Format(time.Time.UTC(timestamppb.Timestamp.AsTime(bom.NodeList.Nodes[i].ValidUntilDate)), "2006-01-02T15:04:05Z07:00")) && (bom.NodeList.Nodes[i].ReleaseDate == nil ==> p.ReleaseDate == "") && (bom.NodeList.Nodes[i].BuildDate == nil ==> p.BuiltDate == "") && (bom.NodeList.Nodes[i].ValidUntilDate == nil ==> p.ValidUntilDate == "")))
//@   invariant L0: [C01:inv] (forall u int :: 0 <= u && u < len(bom.NodeList.Nodes) ==> !(bom.NodeList.Nodes[u].Id in fieldsetn(bom.NodeList.Nodes, Id, u))) ==> (forall p *v2_3.Package, i int :: (p in elems(packages)) && 0 <= i && i < len(bom.NodeList.Nodes) && bom.NodeList.Nodes[i].Type != 1 && p.PackageSPDXIdentifier == bom.NodeList.Nodes[i].Id ==> (bom.NodeList.Nodes[i].ReleaseDate != nil ==> p.ReleaseDate == time.Time.Format(time.Time.UTC(timestamppb.Timestamp.AsTime(bom.NodeList.Nodes[i].ReleaseDate)), "2006-01-02T15:04:05Z07:00")) && (bom.NodeList.Nodes[i].BuildDate != nil ==> p.BuiltDate == time.Time.Format(time.Time.UTC(timestamppb.Timestamp.AsTime(bom.NodeList.Nodes[i].BuildDate)), "2006-01-02T15:04:05Z07:00")) && (bom.NodeList.Nodes[i].ValidUntilDate != nil ==> p.ValidUntilDate == time.Time.Format(time.Time.UTC(timestamppb.Timestamp.AsTime(bom.NodeList.Nodes[i].ValidUntilDate)), "2006-01-02T15:04:05Z07:00")) && (bom.NodeList.Nodes[i].ReleaseDate == nil ==> p.ReleaseDate == "") && (bom.NodeList.Nodes[i].BuildDate == nil ==> p.BuiltDate == "") && (bom.NodeList.Nodes[i].ValidUntilDate == nil ==> p.ValidUntilDate == ""))
//@   ensures [C01:spdx:package:people] result1 == nil ==> ((forall u int :: 0 <= u && u < len(bom.NodeList.Nodes) ==> !(bom.NodeList.Nodes[u].Id in fieldsetn(bom.NodeList.Nodes, Id, u))) ==> (forall p *v2_3.Package, i int :: (p in elems(result0)) && 0 <= i && i < len(bom.NodeList.Nodes) && bom.NodeList.Nodes[i].Type != 1 && p.PackageSPDXIdentifier == bom.NodeList.Nodes[i].Id ==> ((p.PackageSupplier != nil) <==> (len(bom.NodeList.Nodes[i].Suppliers) > 0)) && ((p.PackageOriginator != nil) <==> (len(bom.NodeList.Nodes[i].Originators) > 0))))
//@   invariant L0: [C01:inv] !(nil in elems(packages)) && (forall p *v2_3.Package :: (p in elems(packages)) ==> fresh(p) && (p.PackageSPDXIdentifier in fieldsetn(bom.NodeList.Nodes, Id, _i)))
//@   invariant L0: [C01:inv] (forall u int :: 0 <= u && u < len(bom.NodeList.Nodes) ==> !(bom.NodeList.Nodes[u].Id in fieldsetn(bom.NodeList.Nodes, Id, u))) ==> (forall p *v2_3.Package, i int :: (p in elems(packages)) && 0 <= i && i < len(bom.NodeList.Nodes) && bom.NodeList.Nodes[i].Type != 1 && p.PackageSPDXIdentifier == bom.NodeList.Nodes[i].Id ==> spdxPkgOf(p, bom.NodeList.Nodes[i]))
//@   invariant L0: [C01:inv] (forall u int :: 0 <= u && u < len(bom.NodeList.Nodes) ==> !(bom.NodeList.Nodes[u].Id in fieldsetn(bom.NodeList.Nodes, Id, u))) ==> (forall p *v2_3.Package, i int :: (p in elems(packages)) && 0 <= i && i < len(bom.NodeList.Nodes) && bom.NodeList.Nodes[i].Type != 1 && p.PackageSPDXIdentifier == bom.NodeList.Nodes[i].Id ==> ((p.PackageSupplier != nil) <==> (len(bom.NodeList.Nodes[i].Suppliers) > 0)) && ((p.PackageOriginator != nil) <==> (len(bom.NodeList.Nodes[i].Originators) > 0)))
//@   invariant L0: [C03:inv] forall i int :: 0 <= i && i < _i && bom.NodeList.Nodes[i].Type != 1 ==> (bom.NodeList.Nodes[i].Id in fieldset(packages, PackageSPDXIdentifier))

// C03/C01: every (edge, target) pair yields a relationship with that source, target and type
//@ func buildRelationships
//@   props C03, C01
//@   inline
//@   requires [C03:pre] bom != nil && bom.NodeList != nil && sbom.validNL(bom.NodeList)
//@   ensures [C03:spdx:relationships:complete] result1 == nil ==> (forall i int, j int :: 0 <= i && i < len(bom.NodeList.Edges) && 0 <= j && j < len(bom.NodeList.Edges[i].To) ==> (exists k int :: 0 <= k && k < len(result0) && result0[k] != nil && result0[k].RefA.ElementRefID == bom.NodeList.Edges[i].From && result0[k].RefA.DocumentRefID == "" && result0[k].RefB.ElementRefID == bom.NodeList.Edges[i].To[j] && result0[k].RefB.DocumentRefID == "" && result0[k].Relationship == sbom.Edge_Type.ToSPDX2(bom.NodeList.Edges[i].Type)))
//@   ensures [C01:spdx:relationships:complete] result1 == nil ==> (forall i int, j int :: 0 <= i && i < len(bom.NodeList.Edges) && 0 <= j && j < len(bom.NodeList.Edges[i].To) ==> (exists k int :: 0 <= k && k < len(result0) && result0[k] != nil && result0[k].RefA.ElementRefID == bom.NodeList.Edges[i].From && result0[k].RefA.DocumentRefID == "" && result0[k].RefB.ElementRefID == bom.NodeList.Edges[i].To[j] && result0[k].RefB.DocumentRefID == "" && result0[k].Relationship == sbom.Edge_Type.ToSPDX2(bom.NodeList.Edges[i].Type)))
//@   invariant L0: [C03:inv@root] !(nil in elems(relationships)) && (forall i int, j int :: 0 <= i && i < _i && 0 <= j && j < len(bom.NodeList.Edges[i].To) ==> (exists k int :: 0 <= k && k < len(relationships) && relationships[k] != nil && relationships[k].RefA.ElementRefID == bom.NodeList.Edges[i].From && relationships[k].RefA.DocumentRefID == "" && relationships[k].RefB.ElementRefID == bom.NodeList.Edges[i].To[j] && relationships[k].RefB.DocumentRefID == "" && relationships[k].Relationship == sbom.Edge_Type.ToSPDX2(bom.NodeList.Edges[i].Type)))
//@   invariant L1: [C03:inv@root] !(nil in elems(relationships)) && (forall i int, j int :: 0 <= i && i < _i1 && 0 <= j && j < len(bom.NodeList.Edges[i].To) ==> (exists k int :: 0 <= k && k < len(relationships) && relationships[k] != nil && relationships[k].RefA.ElementRefID == bom.NodeList.Edges[i].From && relationships[k].RefA.DocumentRefID == "" && relationships[k].RefB.ElementRefID == bom.NodeList.Edges[i].To[j] && relationships[k].RefB.DocumentRefID == "" && relationships[k].Relationship == sbom.Edge_Type.ToSPDX2(bom.NodeList.Edges[i].Type)))
//@   invariant L1: [C03:inv@root] e != nil && e == bom.NodeList.Edges[_i1] && 0 <= _i1 && _i1 < len(bom.NodeList.Edges) && 0 <= _i && _i <= len(relationships) && (forall j int :: 0 <= j && j < _i ==> relationships[len(relationships) - _i + j] != nil && relationships[len(relationships) - _i + j].RefA.ElementRefID == e.From && relationships[len(relationships) - _i + j].RefA.DocumentRefID == "" && relationships[len(relationships) - _i + j].RefB.ElementRefID == e.To[j] && relationships[len(relationships) - _i + j].RefB.DocumentRefID == "" && relationships[len(relationships) - _i + j].Relationship == sbom.Edge_Type.ToSPDX2(e.Type))

// ---------------------------------------------------------------------------
// C02: where each attribute of a node lands in its CycloneDX component
// ---------------------------------------------------------------------------
//@ pred cdxCompOf(c *cyclonedx.Component, n *sbom.Node) = c.BOMRef == n.Id && c.Name == n.Name && c.Version == n.Version && c.Description == n.Description && c.Copyright == n.Copyright && (n.Type == 1 ==> c.Type == "file") && ((n.Identifiers != nil && (1 in n.Identifiers)) ==> c.PackageURL == n.Identifiers[1]) && (!(n.Identifiers != nil && (1 in n.Identifiers)) ==> c.PackageURL == "")

// a switch over the enum: state independent
//@ func CDX.protobomExtRefTypeToCdxType
//@   props C02
//@   shadow

// external references of a node in its component: one per reference, in order, with URL, comment and mapped type;
// every hash value emitted for a reference is a hash value of that reference
//@ pred cdxCompRefsOf(c *cyclonedx.Component, n *sbom.Node) = c.ExternalReferences != nil && len(*c.ExternalReferences) == len(n.ExternalReferences) && (forall a int :: 0 <= a && a < len(n.ExternalReferences) ==> (*c.ExternalReferences)[a].URL == n.ExternalReferences[a].Url && (*c.ExternalReferences)[a].Comment == n.ExternalReferences[a].Comment && (*c.ExternalReferences)[a].Type == CDX.protobomExtRefTypeToCdxType(nil, n.ExternalReferences[a].Type))
//@ pred cdxCompRefHashesOf(c *cyclonedx.Component, n *sbom.Node) = forall a int, j int :: 0 <= a && a < len(n.ExternalReferences) && (*c.ExternalReferences)[a].Hashes != nil && 0 <= j && j < len(*(*c.ExternalReferences)[a].Hashes) ==> (exists k int32 :: (k in n.ExternalReferences[a].Hashes) && (*(*c.ExternalReferences)[a].Hashes)[j].Value == n.ExternalReferences[a].Hashes[k])

//@ func CDX.nodeToComponent
//@   props C02
//@   inline
//@   ensures [C02:cdx:component:nil] (result == nil) <==> (n == nil)
//@   ensures [C02:cdx:component:scalars] n != nil ==> cdxCompOf(result, n)
//@   ensures [C02:cdx:component:hashes] n != nil ==> result.Hashes != nil && (forall j int :: 0 <= j && j < len(*result.Hashes) ==> (exists k int32 :: (k in n.Hashes) && (*result.Hashes)[j].Value == n.Hashes[k]))
//@   invariant L1: [C02:inv] c != nil && fresh(c) && c.Hashes != nil && fresh(c.Hashes) && (forall j int :: 0 <= j && j < len(*c.Hashes) ==> (exists k int32 :: (k in _V) && (k in n.Hashes) && (*c.Hashes)[j].Value == n.Hashes[k]))
//@   invariant L2: [C02:inv] c.Hashes != nil && fresh(c.Hashes) && c.Hashes != c.ExternalReferences && allocated(arr(*c.Hashes)) && (forall j int :: 0 <= j && j < len(*c.Hashes) ==> (exists k int32 :: (k in n.Hashes) && (*c.Hashes)[j].Value == n.Hashes[k]))
//@   invariant L3: [C02:inv] c.Hashes != nil && fresh(c.Hashes) && c.Hashes != addr_hashList && c.Hashes != c.ExternalReferences && allocated(arr(*c.Hashes)) && (cap(hashList) == 0 || arr(*c.Hashes) != arr(hashList)) && (forall j int :: 0 <= j && j < len(*c.Hashes) ==> (exists k int32 :: (k in n.Hashes) && (*c.Hashes)[j].Value == n.Hashes[k]))
//@   ensures [C02:cdx:component:extrefs] n != nil ==> cdxCompRefsOf(result, n)
//@   ensures [C02:cdx:component:extrefHashes] n != nil ==> cdxCompRefHashesOf(result, n)
//@   invariant L2: [C02:inv] c != nil && fresh(c) && c.ExternalReferences != nil && fresh(c.ExternalReferences) && len(*c.ExternalReferences) == _i
//@   invariant L2: [C02:inv] forall a int :: 0 <= a && a < _i ==> (*c.ExternalReferences)[a].URL == n.ExternalReferences[a].Url && (*c.ExternalReferences)[a].Comment == n.ExternalReferences[a].Comment && (*c.ExternalReferences)[a].Type == CDX.protobomExtRefTypeToCdxType(nil, n.ExternalReferences[a].Type)
//@   invariant L2: [C02:inv] forall a int, j int :: 0 <= a && a < _i && (*c.ExternalReferences)[a].Hashes != nil && 0 <= j && j < len(*(*c.ExternalReferences)[a].Hashes) ==> (exists k int32 :: (k in n.ExternalReferences[a].Hashes) && (*(*c.ExternalReferences)[a].Hashes)[j].Value == n.ExternalReferences[a].Hashes[k])
//@   invariant L3: [C02:inv] c != nil && fresh(c) && c.ExternalReferences != nil && fresh(c.ExternalReferences) && len(*c.ExternalReferences) == _i1 && 0 <= _i1 && _i1 < len(n.ExternalReferences) && er == n.ExternalReferences[_i1]
//@   invariant L3: [C02:inv] forall a int :: 0 <= a && a < _i1 ==> (*c.ExternalReferences)[a].URL == n.ExternalReferences[a].Url && (*c.ExternalReferences)[a].Comment == n.ExternalReferences[a].Comment && (*c.ExternalReferences)[a].Type == CDX.protobomExtRefTypeToCdxType(nil, n.ExternalReferences[a].Type)
//@   invariant L3: [C02:inv] forall a int, j int :: 0 <= a && a < _i1 && (*c.ExternalReferences)[a].Hashes != nil && 0 <= j && j < len(*(*c.ExternalReferences)[a].Hashes) ==> (exists k int32 :: (k in n.ExternalReferences[a].Hashes) && (*(*c.ExternalReferences)[a].Hashes)[j].Value == n.ExternalReferences[a].Hashes[k])
//@   invariant L2: [C02:inv] forall a int :: 0 <= a && a < _i && (*c.ExternalReferences)[a].Hashes != nil ==> allocated((*c.ExternalReferences)[a].Hashes) && allocated(arr(*(*c.ExternalReferences)[a].Hashes))
//@   invariant L3: [C02:inv] forall a int :: 0 <= a && a < _i1 && (*c.ExternalReferences)[a].Hashes != nil ==> allocated((*c.ExternalReferences)[a].Hashes) && allocated(arr(*(*c.ExternalReferences)[a].Hashes))
//@   invariant L3: [C02:inv] (cap(hashList) == 0 || fresh(arr(hashList))) && allocated(arr(hashList)) && (forall a int :: 0 <= a && a < _i1 && (*c.ExternalReferences)[a].Hashes != nil ==> (*c.ExternalReferences)[a].Hashes != addr_hashList && (cap(hashList) == 0 || arr(*(*c.ExternalReferences)[a].Hashes) != arr(hashList)))
//@   invariant L3: [C02:inv] forall j int :: 0 <= j && j < len(hashList) ==> (exists k int32 :: (k in er.Hashes) && hashList[j].Value == er.Hashes[k])
//@   invariant L4: [C02:inv] c != nil && fresh(c) && c.BOMRef == n.Id && c.Name == n.Name && c.Version == n.Version && c.Description == n.Description && c.Copyright == "" && (n.Type == 1 ==> c.Type == "file") && ((1 in _V) ==> c.PackageURL == n.Identifiers[1]) && (!(1 in _V) ==> c.PackageURL == "")
