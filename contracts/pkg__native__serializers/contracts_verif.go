//go:build verif

// Contracts for package serializers, read by /verif/govc (comment-only file).
package serializers

// ---------------------------------------------------------------------------
// C07: serializers are total on arbitrary documents; C11: they only read them
// ---------------------------------------------------------------------------

//@ func SPDX23.Serialize
//@   props C07, C11, C06
//@   assigns \nothing
//@   ensures [C06:decl:spdx23] result1 == nil ==> typeis(result0, *v2_3.Document) && as(result0, *v2_3.Document) != nil && as(result0, *v2_3.Document).SPDXVersion == "SPDX-2.3"

// Render is handed what Serialize of the same driver returned (writer protocol)
//@ func SPDX23.Render
//@   props C07
//@   requires o != nil && typeis(doc, *v2_3.Document)
//@   assigns \nothing

//@ func CDX.Serialize
//@   props C07, C11, C06
//@   assigns \nothing
//@   ensures [C06:decl:cdx] result1 == nil ==> typeis(result0, *cyclonedx.BOM) && as(result0, *cyclonedx.BOM) != nil && as(result0, *cyclonedx.BOM).BOMFormat == "CycloneDX"
//@   invariant L0: doc != nil && rootfresh(doc) && doc.Metadata != nil && rootfresh(doc.Metadata) && doc.Metadata.Lifecycles != nil && rootfresh(doc.Metadata.Lifecycles) && (arr(*doc.Metadata.Lifecycles) == nil || rootfresh(arr(*doc.Metadata.Lifecycles)))

//@ func CDX.Render
//@   props C07
//@   requires o != nil
//@   assigns \nothing

//@ func clearAutoRefs
//@   props C07
//@   requires comps != nil
//@   assigns anyelems(cyclonedx.Component)

// the per-call serializer state: every component in the dictionary was built
// by this call (fresh), and so are the sub-component lists hanging off them
//@ pred cdxStateOK(s *serializerCDXState) = s != nil && rootfresh(s) && s.addedDict != nil && s.componentsDict != nil && rootfresh(s.addedDict) && rootfresh(s.componentsDict) && (forall k string :: (k in s.componentsDict) ==> s.componentsDict[k] != nil && rootfresh(s.componentsDict[k]) && (s.componentsDict[k].Components == nil || (rootfresh(s.componentsDict[k].Components) && (arr(*s.componentsDict[k].Components) == nil || rootfresh(arr(*s.componentsDict[k].Components))))))

//@ func CDX.componentsMaps
//@   inline
//@   invariant L0: cdxStateOK(state)

//@ func CDX.dependencies
//@   inline
//@   invariant L0: cdxStateOK(state)
//@   invariant L1: cdxStateOK(state)
//@   invariant L2: cdxStateOK(state)

//@ func serializerCDXState.components
//@   inline
//@   invariant L0: cdxStateOK(s)

// ---------------------------------------------------------------------------
// C03 (no silent drop): every non-file node yields an SPDX package carrying its
// identifier; C01: where each attribute of the node lands in the package
// ---------------------------------------------------------------------------
//@ fieldset-of spdx/tools-golang/spdx/v2/v2_3.Package: PackageSPDXIdentifier

//@ func SPDX23.buildPackages
//@   props C03, C01
//@   inline
//@   requires [C03:pre] bom != nil && bom.NodeList != nil && sbom.validNL(bom.NodeList)
//@   ensures [C03:spdx:packages:complete] result1 == nil ==> (forall i int :: 0 <= i && i < len(bom.NodeList.Nodes) && bom.NodeList.Nodes[i].Type != 1 ==> (bom.NodeList.Nodes[i].Id in fieldset(result0, PackageSPDXIdentifier)))
//@   invariant L0: [C03:inv] forall i int :: 0 <= i && i < _i && bom.NodeList.Nodes[i].Type != 1 ==> (bom.NodeList.Nodes[i].Id in fieldset(packages, PackageSPDXIdentifier))
