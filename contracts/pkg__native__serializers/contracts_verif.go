//go:build verif

// Contracts for package serializers, read by /verif/govc (comment-only file).
package serializers
