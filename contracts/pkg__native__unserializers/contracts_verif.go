//go:build verif

// Contracts for package unserializers, read by /verif/govc (comment-only file).
package unserializers

// ---------------------------------------------------------------------------
// C01: SPDX tables are inverse to the serializer's tables
// ---------------------------------------------------------------------------

//@ table spdxIdentifierRoundTrip [C01]: forall i sbom.SoftwareIdentifierType, r *v2_3.PackageExternalReference :: 1 <= i && i <= 4 && r != nil && r.Category == sbom.SoftwareIdentifierType.ToSPDX2Category(i) && r.RefType == sbom.SoftwareIdentifierType.ToSPDX2Type(i) ==> proj(SPDX23.extRefToProtobomEnum(nil, r), 1) == true && proj(SPDX23.extRefToProtobomEnum(nil, r), 2) == nil && SPDX23.extRefTypeToIdentifierType(nil, r.RefType) == i

//@ table spdxExtRefTypeRoundTrip [C01]: forall e *sbom.ExternalReference, r *v2_3.PackageExternalReference :: e != nil && r != nil && (e.Type == 4 || e.Type == 26 || e.Type == 29 || e.Type == 30 || e.Type == 31 || e.Type == 44 || e.Type == 46 || e.Type == 47) && r.Category == serializers.SPDX23.extRefCategoryFromProtobomExtRef(nil, e) && r.RefType == serializers.SPDX23.extRefTypeFromProtobomExtRef(nil, e) ==> proj(SPDX23.extRefToProtobomEnum(nil, r), 0) == e.Type && proj(SPDX23.extRefToProtobomEnum(nil, r), 1) == false && proj(SPDX23.extRefToProtobomEnum(nil, r), 2) == nil

// ---------------------------------------------------------------------------
// C02: CycloneDX tables are inverse to the serializer's tables
// ---------------------------------------------------------------------------

//@ table cdxHashAlgoRoundTrip [C02]: forall h sbom.HashAlgorithm :: 1 <= h && h <= 12 ==> proj(serializers.CDX.protoHashAlgoToCdxAlgo(nil, h), 1) == nil && CDX.cdxHashAlgoToProtobomAlgo(nil, proj(serializers.CDX.protoHashAlgoToCdxAlgo(nil, h), 0)) == h && sbom.HashAlgorithmFromCDX(proj(serializers.CDX.protoHashAlgoToCdxAlgo(nil, h), 0)) == h

//@ table cdxExtRefTypeNative [C02]: forall t sbom.ExternalReference_ExternalReferenceType :: (t == 1 || t == 3 || (5 <= t && t <= 15) || t == 17 || t == 19 || (21 <= t && t <= 25) || t == 28 || t == 32 || t == 37 || (39 <= t && t <= 41) || (43 <= t && t <= 45) || t == 48 || t == 51 || t == 52 || (54 <= t && t <= 57) || t == 59 || t == 60) ==> serializers.CDX.protobomExtRefTypeToCdxType(nil, t) != "other"

//@ table cdxExtRefTypeRoundTrip [C02]: forall t sbom.ExternalReference_ExternalReferenceType :: 0 <= t && t <= 60 && (serializers.CDX.protobomExtRefTypeToCdxType(nil, t) != "other" || t == 31) ==> CDX.cdxExtRefTypeToProtobomType(nil, serializers.CDX.protobomExtRefTypeToCdxType(nil, t)) == t

//@ table cdxComponentTypeRoundTrip [C02]: forall p sbom.Purpose :: (p == 1 || p == 14 || p == 16 || p == 5 || p == 24 || p == 21 || p == 7 || p == 8 || p == 13 || p == 12 || p == 17 || p == 6) ==> proj(serializers.CDX.purposeToComponentType(nil, p), 1) == nil && CDX.componentTypeToPurpose(nil, proj(serializers.CDX.purposeToComponentType(nil, p), 0)) == p

// ---------------------------------------------------------------------------
// C04: parsers are total. The decoded native document is an ARBITRARY value of
// its Go type (any pointer may be nil, any slice any length, pointer elements
// may be nil): that is the trusted contract of the third-party decoders.
// ---------------------------------------------------------------------------

//@ func CDX.Unserialize
//@   props C04
// (no assigns clause: the frame of this function is not claimed; the interface contract of native.Unserializer is what callers use)
//@   invariant L1: doc != nil && fresh(doc) && doc.NodeList != nil && fresh(doc.NodeList) && sbom.validNL(doc.NodeList) && doc.Metadata != nil
//@   ensures [C04:unserialize:oneOf] (result1 == nil) != (result0 == nil)
//@   ensures [C04:unserialize:complete] result1 == nil ==> result0.Metadata != nil && result0.NodeList != nil

//@ func CDX.componentToNodeList
//@   props C04, C05
//@   ensures [C05:cdx:counter] result1 == nil ==> *cc >= old(*cc) + 1 + (component.Components != nil ? len(*component.Components) : 0)
//@   ensures [C05:cdx:counterMonotone] *cc >= old(*cc)
//@   ensures [C05:cdx:counterStrict] result1 == nil ==> *cc >= old(*cc) + 1
//@   invariant L0: [C05:inv] *cc >= old(*cc) + 1 + _i
//@   ensures [C05:cdx:rootsClosed] result1 == nil ==> sbom.closedRoots(result0)
//@   ensures [C05:cdx:fragmentRoot] result1 == nil ==> len(result0.Nodes) >= 1 && result0.Nodes[0] != nil && len(result0.RootElements) == 1 && result0.RootElements[0] == result0.Nodes[0].Id && result0.Nodes[0].Id != "" && (component.BOMRef != "" ==> result0.Nodes[0].Id == component.BOMRef)
//@   invariant L0: [C05:inv] len(nl.Nodes) >= 1 && nl.Nodes[0] == node && len(nl.RootElements) == 1 && nl.RootElements[0] == node.Id && node.Id != "" && (component.BOMRef != "" ==> node.Id == component.BOMRef)
//@   invariant L0: [C05:inv] sbom.closedRoots(nl)
//@   requires component != nil && cc != nil
//@   assigns cc.*
//@   owns
//@   ensures [C04:componentToNodeList:oneOf] (result1 == nil) != (result0 == nil)
//@   ensures [C04:componentToNodeList:valid] result1 == nil ==> sbom.validNL(result0) && fresh(result0)
//@   invariant L0: sbom.validNL(nl) && fresh(nl) && node != nil
//@   invariant L0: (arr(nl.Nodes) == nil || fresh(arr(nl.Nodes))) && (arr(nl.Edges) == nil || fresh(arr(nl.Edges))) && (arr(nl.RootElements) == nil || fresh(arr(nl.RootElements)))

//@ func SPDX23.Unserialize
//@   props C04, C03, C05
//@   assigns \nothing
//@   ensures [C04:unserialize:oneOf] (result1 == nil) != (result0 == nil)
//@   ensures [C04:unserialize:complete] result1 == nil ==> result0.Metadata != nil && result0.NodeList != nil
//@   ensures [C05:spdx:closed] result1 == nil && (forall j int :: 0 <= j && j < len(spdxdoc(r).Relationships) ==> (spdxdoc(r).Relationships[j].RefB.ElementRefID in fieldset(result0.NodeList.Nodes, Id)) && (!(spdxdoc(r).Relationships[j].RefA.ElementRefID == "DOCUMENT" && strings.EqualFold(spdxdoc(r).Relationships[j].Relationship, "DESCRIBES")) ==> (spdxdoc(r).Relationships[j].RefA.ElementRefID in fieldset(result0.NodeList.Nodes, Id)))) ==> sbom.closedRoots(result0.NodeList) && sbom.closedEdges(result0.NodeList)
//@   invariant L3: [C05:inv] (forall j int :: 0 <= j && j < len(spdxDoc.Relationships) ==> (spdxDoc.Relationships[j].RefB.ElementRefID in fieldset(bom.NodeList.Nodes, Id)) && (!(spdxDoc.Relationships[j].RefA.ElementRefID == "DOCUMENT" && strings.EqualFold(spdxDoc.Relationships[j].Relationship, "DESCRIBES")) ==> (spdxDoc.Relationships[j].RefA.ElementRefID in fieldset(bom.NodeList.Nodes, Id)))) ==> sbom.closedRoots(bom.NodeList) && sbom.closedEdges(bom.NodeList)
//@   invariant L3: [C05:inv] !(nil in elems(bom.NodeList.Edges)) && spdxDoc == spdxdoc(r) && bom != nil && bom.NodeList != nil
//@   ensures [C03:spdx:read:roots] result1 == nil ==> (forall j int :: 0 <= j && j < len(spdxdoc(r).Relationships) && (spdxdoc(r).Relationships[j].RefA.ElementRefID == "DOCUMENT" && strings.EqualFold(spdxdoc(r).Relationships[j].Relationship, "DESCRIBES")) ==> (spdxdoc(r).Relationships[j].RefB.ElementRefID in elems(result0.NodeList.RootElements)))
//@   invariant L3: [C03:inv] forall j int :: 0 <= j && j < _i && (spdxDoc.Relationships[j].RefA.ElementRefID == "DOCUMENT" && strings.EqualFold(spdxDoc.Relationships[j].Relationship, "DESCRIBES")) ==> (spdxDoc.Relationships[j].RefB.ElementRefID in elems(bom.NodeList.RootElements))
//@   ensures [C03:spdx:read:packages] result1 == nil ==> (forall i int :: 0 <= i && i < len(spdxdoc(r).Packages) && spdxdoc(r).Packages[i] != nil ==> (spdxdoc(r).Packages[i].PackageSPDXIdentifier in fieldset(result0.NodeList.Nodes, Id)))
//@   ensures [C03:spdx:read:files] result1 == nil ==> (forall i int :: 0 <= i && i < len(spdxdoc(r).Files) && spdxdoc(r).Files[i] != nil ==> (spdxdoc(r).Files[i].FileSPDXIdentifier in fieldset(result0.NodeList.Nodes, Id)))
//@   invariant L1: bom != nil && fresh(bom) && bom.NodeList != nil && fresh(bom.NodeList) && (cap(bom.NodeList.Nodes) == 0 || fresh(arr(bom.NodeList.Nodes))) && (cap(bom.NodeList.Edges) == 0 || fresh(arr(bom.NodeList.Edges))) && (cap(bom.NodeList.RootElements) == 0 || fresh(arr(bom.NodeList.RootElements)))
//@   invariant L2: bom != nil && fresh(bom) && bom.NodeList != nil && fresh(bom.NodeList) && (cap(bom.NodeList.Nodes) == 0 || fresh(arr(bom.NodeList.Nodes))) && (cap(bom.NodeList.Edges) == 0 || fresh(arr(bom.NodeList.Edges))) && (cap(bom.NodeList.RootElements) == 0 || fresh(arr(bom.NodeList.RootElements)))
//@   invariant L3: bom != nil && fresh(bom) && bom.NodeList != nil && fresh(bom.NodeList) && (cap(bom.NodeList.Nodes) == 0 || fresh(arr(bom.NodeList.Nodes))) && (cap(bom.NodeList.Edges) == 0 || fresh(arr(bom.NodeList.Edges))) && (cap(bom.NodeList.RootElements) == 0 || fresh(arr(bom.NodeList.RootElements)))
//@   invariant L1: [C03:inv] spdxDoc == spdxdoc(r) && bom != nil && bom.NodeList != nil && (forall i int :: 0 <= i && i < _i && spdxDoc.Packages[i] != nil ==> (spdxDoc.Packages[i].PackageSPDXIdentifier in fieldset(bom.NodeList.Nodes, Id)))
//@   invariant L2: [C03:inv] spdxDoc == spdxdoc(r) && bom != nil && bom.NodeList != nil && (forall i int :: 0 <= i && i < len(spdxDoc.Packages) && spdxDoc.Packages[i] != nil ==> (spdxDoc.Packages[i].PackageSPDXIdentifier in fieldset(bom.NodeList.Nodes, Id))) && (forall i int :: 0 <= i && i < _i && spdxDoc.Files[i] != nil ==> (spdxDoc.Files[i].FileSPDXIdentifier in fieldset(bom.NodeList.Nodes, Id)))
//@   invariant L3: [C03:inv] spdxDoc == spdxdoc(r) && bom != nil && bom.NodeList != nil && (forall i int :: 0 <= i && i < len(spdxDoc.Packages) && spdxDoc.Packages[i] != nil ==> (spdxDoc.Packages[i].PackageSPDXIdentifier in fieldset(bom.NodeList.Nodes, Id))) && (forall i int :: 0 <= i && i < len(spdxDoc.Files) && spdxDoc.Files[i] != nil ==> (spdxDoc.Files[i].FileSPDXIdentifier in fieldset(bom.NodeList.Nodes, Id)))

// ---------------------------------------------------------------------------
// C01: where each attribute of an SPDX package lands in the node (reader side)
// ---------------------------------------------------------------------------
//@ pred spdxNodeOf(m *sbom.Node, p *v2_3.Package) = m.Id == p.PackageSPDXIdentifier && m.Type == 0 && m.Name == p.PackageName && m.Version == p.PackageVersion && m.FileName == p.PackageFileName && m.UrlHome == p.PackageHomePage && m.UrlDownload == p.PackageDownloadLocation && m.LicenseComments == p.PackageLicenseComments && m.Copyright == p.PackageCopyrightText && m.SourceInfo == p.PackageSourceInfo && m.Comment == p.PackageComment && m.Summary == p.PackageSummary && m.Description == p.PackageDescription && m.LicenseConcluded == ((p.PackageLicenseConcluded != "NOASSERTION" && p.PackageLicenseConcluded != "") ? p.PackageLicenseConcluded : "")

// writer contract + reader contract ==> the scalar attributes survive (JSON layer: trusted identity on these fields)
//@ lemma spdxPackageScalarsRoundTrip [C01]: forall p *v2_3.Package, n *sbom.Node, m *sbom.Node :: p != nil && n != nil && m != nil && serializers.spdxPkgOf(p, n) && spdxNodeOf(m, p) ==> m.Id == n.Id && m.Type == 0 && m.Name == n.Name && m.Version == n.Version && m.FileName == n.FileName && m.UrlHome == n.UrlHome && m.LicenseComments == n.LicenseComments && m.SourceInfo == n.SourceInfo && m.Comment == n.Comment && m.Summary == n.Summary && m.Description == n.Description && m.UrlDownload == (n.UrlDownload == "" ? "NOASSERTION" : n.UrlDownload) && (n.LicenseConcluded != "NOASSERTION" ==> m.LicenseConcluded == n.LicenseConcluded)

//@ func SPDX23.packageToNode
//@   props C01
//@   inline
//@   requires [C01:pre] p != nil
//@   ensures [C01:spdx:node:scalars] result != nil && spdxNodeOf(result, p)
//@   ensures [C01:spdx:node:hashes] len(p.PackageChecksums) > 0 ==> result.Hashes != nil && (forall k int32 :: (k in result.Hashes) ==> (exists j int :: 0 <= j && j < len(p.PackageChecksums) && result.Hashes[k] == p.PackageChecksums[j].Value))
//@   ensures [C01:spdx:node:extrefs] forall a int :: 0 <= a && a < len(result.ExternalReferences) ==> result.ExternalReferences[a] != nil && (exists j int :: 0 <= j && j < len(p.PackageExternalReferences) && p.PackageExternalReferences[j] != nil && result.ExternalReferences[a].Url == p.PackageExternalReferences[j].Locator && result.ExternalReferences[a].Comment == p.PackageExternalReferences[j].ExternalRefComment)
//@   invariant L0: [C01:inv] n != nil && fresh(n) && n.Hashes != nil && fresh(n.Hashes) && n.Identifiers != nil && n.Hashes != n.Identifiers && (forall k int32 :: (k in n.Hashes) ==> (exists j int :: 0 <= j && j < _i && n.Hashes[k] == p.PackageChecksums[j].Value))
//@   invariant L1: [C01:inv] n != nil && fresh(n) && n.Identifiers != nil && fresh(n.Identifiers) && fresh(arr(n.ExternalReferences)) && (len(p.PackageChecksums) > 0 ==> n.Hashes != nil && n.Hashes != n.Identifiers && (forall k int32 :: (k in n.Hashes) ==> (exists j int :: 0 <= j && j < len(p.PackageChecksums) && n.Hashes[k] == p.PackageChecksums[j].Value)))
//@   invariant L1: [C01:inv] forall a int :: 0 <= a && a < len(n.ExternalReferences) ==> n.ExternalReferences[a] != nil && (exists j int :: 0 <= j && j < _i && p.PackageExternalReferences[j] != nil && n.ExternalReferences[a].Url == p.PackageExternalReferences[j].Locator && n.ExternalReferences[a].Comment == p.PackageExternalReferences[j].ExternalRefComment)
//@   ensures [C01:spdx:node:licenseConcluded] result.LicenseConcluded == ((p.PackageLicenseConcluded != "NOASSERTION" && p.PackageLicenseConcluded != "") ? p.PackageLicenseConcluded : "")
//@   ensures [C01:spdx:node:people] (p.PackageSupplier != nil && p.PackageSupplier.Supplier != "NOASSERTION" ==> len(result.Suppliers) == 1 && result.Suppliers[0] != nil && result.Suppliers[0].Name == p.PackageSupplier.Supplier && (result.Suppliers[0].IsOrg <==> p.PackageSupplier.SupplierType == "Organization")) && (p.PackageOriginator != nil && p.PackageOriginator.Originator != "NOASSERTION" && p.PackageOriginator.Originator != "" ==> len(result.Originators) == 1 && result.Originators[0] != nil && result.Originators[0].Name == p.PackageOriginator.Originator && (result.Originators[0].IsOrg <==> p.PackageOriginator.OriginatorType == "Organization"))

//@ pred spdxFileNodeOf(m *sbom.Node, f *v2_3.File) = m.Id == f.FileSPDXIdentifier && m.Type == 1 && m.Name == f.FileName && m.LicenseConcluded == f.LicenseConcluded && m.LicenseComments == f.LicenseComments && m.Copyright == f.FileCopyrightText && m.Comment == f.FileComment && m.FileTypes == f.FileTypes && m.Licenses == f.LicenseInfoInFiles

//@ lemma spdxFileScalarsRoundTrip [C01]: forall f *v2_3.File, n *sbom.Node, m *sbom.Node :: f != nil && n != nil && m != nil && serializers.spdxFileOf(f, n) && spdxFileNodeOf(m, f) ==> m.Id == n.Id && m.Type == 1 && m.Name == n.Name && m.LicenseConcluded == n.LicenseConcluded && m.LicenseComments == n.LicenseComments && m.Comment == n.Comment && m.FileTypes == n.FileTypes

//@ func SPDX23.fileToNode
//@   props C01
//@   inline
//@   requires [C01:pre] f != nil
//@   ensures [C01:spdx:filenode:scalars] result != nil && spdxFileNodeOf(result, f)
//@   ensures [C01:spdx:filenode:hashes] len(f.Checksums) > 0 ==> result.Hashes != nil && (forall k int32 :: (k in result.Hashes) ==> (exists j int :: 0 <= j && j < len(f.Checksums) && result.Hashes[k] == f.Checksums[j].Value))
//@   invariant L0: [C01:inv] n != nil && fresh(n) && n.Hashes != nil && fresh(n.Hashes) && (forall k int32 :: (k in n.Hashes) ==> (exists j int :: 0 <= j && j < _i && n.Hashes[k] == f.Checksums[j].Value))

// ---------------------------------------------------------------------------
// C02: where each attribute of a CycloneDX component lands in the node (reader side)
// ---------------------------------------------------------------------------
//@ func CDX.componentTypeToPurpose
//@   props C02
//@   shadow

//@ pred cdxNodeOf(m *sbom.Node, c *cyclonedx.Component) = (c.BOMRef != "" ==> m.Id == c.BOMRef) && m.Name == c.Name && m.Version == c.Version && m.Copyright == c.Copyright && m.Description == c.Description && m.Identifiers != nil && (c.PackageURL != "" ==> (1 in m.Identifiers) && m.Identifiers[1] == c.PackageURL) && ((m.Type == 1) <==> (CDX.componentTypeToPurpose(nil, c.Type) == 12)) && (m.Type == 0 || m.Type == 1)

// a switch over the enum: state independent
//@ func CDX.cdxExtRefTypeToProtobomType
//@   props C02
//@   shadow

// reader side of external references: one protobom reference per CycloneDX reference, in order,
// with its URL, comment and mapped type; every hash value of the result is a hash value of that reference
//@ func CDX.unserializeExternalReferences
//@   props C02, C04
//@   assigns \nothing
//@   ensures fresh(arr(result))
//@   invariant L0: fresh(arr(ret))
//@   invariant L1: fresh(arr(ret))
//@   ensures [C02:cdx:extrefs:fresh] forall a int :: 0 <= a && a < len(result) ==> result[a] != nil && fresh(result[a]) && result[a].Hashes != nil && fresh(result[a].Hashes)
//@   ensures [C02:cdx:extrefs:count] (cdxReferences == nil ==> len(result) == 0) && (cdxReferences != nil ==> len(result) == len(*cdxReferences))
//@   ensures [C02:cdx:extrefs:scalars] cdxReferences != nil ==> (forall a int :: 0 <= a && a < len(result) ==> result[a] != nil && result[a].Url == (*cdxReferences)[a].URL && result[a].Comment == (*cdxReferences)[a].Comment && result[a].Type == CDX.cdxExtRefTypeToProtobomType(nil, (*cdxReferences)[a].Type))
//@   ensures [C02:cdx:extrefs:hashes] cdxReferences != nil ==> (forall a int, k int32 :: 0 <= a && a < len(result) && (k in result[a].Hashes) ==> (*cdxReferences)[a].Hashes != nil && (exists j int :: 0 <= j && j < len(*(*cdxReferences)[a].Hashes) && result[a].Hashes[k] == (*(*cdxReferences)[a].Hashes)[j].Value))
//@   invariant L0: [C02:inv] len(ret) == _i && (cap(ret) == 0 || fresh(arr(ret))) && (forall a int :: 0 <= a && a < _i ==> ret[a] != nil && fresh(ret[a]) && ret[a].Hashes != nil && fresh(ret[a].Hashes) && ret[a].Url == (*cdxReferences)[a].URL && ret[a].Comment == (*cdxReferences)[a].Comment && ret[a].Type == CDX.cdxExtRefTypeToProtobomType(nil, (*cdxReferences)[a].Type))
//@   invariant L0: [C02:inv] forall a int, b int :: 0 <= a && a < b && b < _i ==> ret[a] != ret[b] && ret[a].Hashes != ret[b].Hashes
//@   invariant L0: [C02:inv] forall a int, k int32 :: 0 <= a && a < _i && (k in ret[a].Hashes) ==> (*cdxReferences)[a].Hashes != nil && (exists j int :: 0 <= j && j < len(*(*cdxReferences)[a].Hashes) && ret[a].Hashes[k] == (*(*cdxReferences)[a].Hashes)[j].Value)
//@   invariant L1: [C02:inv] len(ret) == _i1 && 0 <= _i1 && _i1 < len(*cdxReferences) && (cap(ret) == 0 || fresh(arr(ret))) && (forall a int :: 0 <= a && a < _i1 ==> ret[a] != nil && fresh(ret[a]) && ret[a].Hashes != nil && fresh(ret[a].Hashes) && ret[a] != nref && ret[a].Hashes != nref.Hashes && ret[a].Url == (*cdxReferences)[a].URL && ret[a].Comment == (*cdxReferences)[a].Comment && ret[a].Type == CDX.cdxExtRefTypeToProtobomType(nil, (*cdxReferences)[a].Type))
//@   invariant L1: [C02:inv] forall a int, b int :: 0 <= a && a < b && b < _i1 ==> ret[a] != ret[b] && ret[a].Hashes != ret[b].Hashes
//@   invariant L1: [C02:inv] forall a int, k int32 :: 0 <= a && a < _i1 && (k in ret[a].Hashes) ==> (*cdxReferences)[a].Hashes != nil && (exists j int :: 0 <= j && j < len(*(*cdxReferences)[a].Hashes) && ret[a].Hashes[k] == (*(*cdxReferences)[a].Hashes)[j].Value)
//@   invariant L1: [C02:inv] nref != nil && fresh(nref) && nref.Hashes != nil && fresh(nref.Hashes) && nref.Url == (*cdxReferences)[_i1].URL && nref.Comment == (*cdxReferences)[_i1].Comment && nref.Type == CDX.cdxExtRefTypeToProtobomType(nil, (*cdxReferences)[_i1].Type) && (*cdxReferences)[_i1].Hashes != nil
//@   invariant L1: [C02:inv] forall k int32 :: (k in nref.Hashes) ==> (exists j int :: 0 <= j && j < _i && nref.Hashes[k] == (*(*cdxReferences)[_i1].Hashes)[j].Value)

//@ pred cdxNodeRefsOf(m *sbom.Node, c *cyclonedx.Component) = (c.ExternalReferences == nil ==> len(m.ExternalReferences) == 0) && (c.ExternalReferences != nil ==> len(m.ExternalReferences) == len(*c.ExternalReferences) && (forall a int :: 0 <= a && a < len(m.ExternalReferences) ==> m.ExternalReferences[a] != nil && m.ExternalReferences[a].Url == (*c.ExternalReferences)[a].URL && m.ExternalReferences[a].Comment == (*c.ExternalReferences)[a].Comment && m.ExternalReferences[a].Type == CDX.cdxExtRefTypeToProtobomType(nil, (*c.ExternalReferences)[a].Type)))
//@ pred cdxNodeRefHashesOf(m *sbom.Node, c *cyclonedx.Component) = c.ExternalReferences != nil ==> (forall a int, k int32 :: 0 <= a && a < len(m.ExternalReferences) && (k in m.ExternalReferences[a].Hashes) ==> (*c.ExternalReferences)[a].Hashes != nil && (exists j int :: 0 <= j && j < len(*(*c.ExternalReferences)[a].Hashes) && m.ExternalReferences[a].Hashes[k] == (*(*c.ExternalReferences)[a].Hashes)[j].Value))

//@ func CDX.componentToNode
//@   props C02, C05
//@   inline
//@   ensures [C05:cdx:counterStep] *cc == old(*cc) + 1
//@   ensures [C05:cdx:idNonEmpty] result0 != nil ==> result0.Id != ""
//@   requires [C02:pre] c != nil && cc != nil
//@   ensures [C02:cdx:node:scalars] result1 == nil && result0 != nil && cdxNodeOf(result0, c)
//@   ensures [C02:cdx:node:hashes] result0 != nil && result0.Hashes != nil && (forall k int32 :: (k in result0.Hashes) ==> c.Hashes != nil && (exists j int :: 0 <= j && j < len(*c.Hashes) && result0.Hashes[k] == (*c.Hashes)[j].Value))
//@   ensures [C02:cdx:node:extrefs] result0 != nil && cdxNodeRefsOf(result0, c) && cdxNodeRefHashesOf(result0, c)
//@   invariant L0: [C02:inv] node != nil && fresh(node) && node.Identifiers != nil && node.Hashes != nil && node.Identifiers != node.Hashes
//@   invariant L0: [C02:inv] cdxNodeRefsOf(node, c) && cdxNodeRefHashesOf(node, c) && (forall a int :: 0 <= a && a < len(node.ExternalReferences) ==> node.ExternalReferences[a].Hashes != node.Hashes && node.ExternalReferences[a].Hashes != node.Identifiers)
//@   invariant L0: [C02:inv] forall k int32 :: (k in node.Hashes) ==> (exists j int :: 0 <= j && j < _i && node.Hashes[k] == (*c.Hashes)[j].Value)
//@   invariant L0: [C02:inv] c.PackageURL != "" ==> (1 in node.Identifiers) && node.Identifiers[1] == c.PackageURL

// writer contract + reader contract ==> the scalar attributes, the purl and the file kind survive
// (JSON layer: trusted identity on these fields); sbom.Purpose_FILE == 12
// writer contract + reader contract ==> external references survive in number, order, URL and comment, their type
// when the writer's table maps it to a native CycloneDX type, and every hash value read back was written for that reference
//@ lemma cdxExtRefsRoundTrip [C02]: forall c *cyclonedx.Component, n *sbom.Node, m *sbom.Node :: c != nil && n != nil && m != nil && serializers.cdxCompRefsOf(c, n) && serializers.cdxCompRefHashesOf(c, n) && cdxNodeRefsOf(m, c) && cdxNodeRefHashesOf(m, c) ==> len(m.ExternalReferences) == len(n.ExternalReferences) && (forall a int :: 0 <= a && a < len(n.ExternalReferences) ==> m.ExternalReferences[a].Url == n.ExternalReferences[a].Url && m.ExternalReferences[a].Comment == n.ExternalReferences[a].Comment && m.ExternalReferences[a].Type == CDX.cdxExtRefTypeToProtobomType(nil, serializers.CDX.protobomExtRefTypeToCdxType(nil, n.ExternalReferences[a].Type)) && (forall k int32 :: (k in m.ExternalReferences[a].Hashes) ==> (exists k2 int32 :: (k2 in n.ExternalReferences[a].Hashes) && m.ExternalReferences[a].Hashes[k] == n.ExternalReferences[a].Hashes[k2])))

// node hashes: every hash value read back for a node was written for that node
//@ lemma cdxNodeHashesRoundTrip [C02]: forall c *cyclonedx.Component, n *sbom.Node, m *sbom.Node :: c != nil && n != nil && m != nil && c.Hashes != nil && (forall j int :: 0 <= j && j < len(*c.Hashes) ==> (exists k int32 :: (k in n.Hashes) && (*c.Hashes)[j].Value == n.Hashes[k])) && (forall k int32 :: (k in m.Hashes) ==> (exists j int :: 0 <= j && j < len(*c.Hashes) && m.Hashes[k] == (*c.Hashes)[j].Value)) ==> (forall k int32 :: (k in m.Hashes) ==> (exists k2 int32 :: (k2 in n.Hashes) && m.Hashes[k] == n.Hashes[k2]))

//@ lemma cdxComponentScalarsRoundTrip [C02]: forall c *cyclonedx.Component, n *sbom.Node, m *sbom.Node :: c != nil && n != nil && m != nil && n.Id != "" && serializers.cdxCompOf(c, n) && cdxNodeOf(m, c) ==> m.Id == n.Id && m.Name == n.Name && m.Version == n.Version && m.Description == n.Description && m.Copyright == n.Copyright && ((n.Identifiers != nil && (1 in n.Identifiers) && n.Identifiers[1] != "") ==> (1 in m.Identifiers) && m.Identifiers[1] == n.Identifiers[1]) && (n.Type == 1 && CDX.componentTypeToPurpose(nil, "file") == 12 ==> m.Type == 1)
