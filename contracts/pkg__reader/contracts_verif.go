//go:build verif

// Contracts for package reader.
package reader

//@ interface Sniffer.SniffReader(s Sniffer, rs io.ReadSeeker)
//@   assigns \nothing

//@ interface Sniffer.SniffFile(s Sniffer, path string)
//@   assigns \nothing
