//go:build verif

// Contracts for package reader.
package reader

//@ interface Sniffer.SniffReader(s Sniffer, rs io.ReadSeeker)
//@   assigns \nothing

//@ interface Sniffer.SniffFile(s Sniffer, path string)
//@   assigns \nothing

//@ func Reader.ParseStreamWithOptions
//@   props C04
//@   requires r.Options != nil && r.sniffer != nil && f != nil
//@   requires forall k formats.Format :: (k in unserializers) ==> unserializers[k] != nil
//@   ensures [C04:parse:oneOf] (result1 == nil) != (result0 == nil)

// registry invariant: registered drivers are non-nil (precondition of RegisterUnserializer)
//@ func GetFormatUnserializer
//@   props C04
//@   requires forall f formats.Format :: (f in unserializers) ==> unserializers[f] != nil
//@   ensures [C04:registry:oneOf] (result1 == nil) ==> result0 != nil

//@ func Reader.ParseStream
//@   props C04
//@   requires r.Options != nil && r.sniffer != nil && f != nil
//@   requires forall k formats.Format :: (k in unserializers) ==> unserializers[k] != nil
//@   ensures [C04:parse:oneOf] (result1 == nil) != (result0 == nil)

//@ func Reader.ParseFile
//@   props C04
//@   requires r.Options != nil && r.sniffer != nil
//@   requires forall k formats.Format :: (k in unserializers) ==> unserializers[k] != nil
//@   ensures [C04:parse:oneOf] (result1 == nil) != (result0 == nil)

//@ func Reader.ParseFileWithOptions
//@   props C04
//@   requires r.Options != nil && r.sniffer != nil
//@   requires forall k formats.Format :: (k in unserializers) ==> unserializers[k] != nil
//@   ensures [C04:parse:oneOf] (result1 == nil) != (result0 == nil)
