//go:build verif

// Contracts for package reader.
package reader

//@ interface Sniffer.SniffReader(s Sniffer, rs io.ReadSeeker)
//@   assigns \nothing

//@ interface Sniffer.SniffFile(s Sniffer, path string)
//@   assigns \nothing

//@ func Reader.ParseStreamWithOptions
//@   props C04
//@   requires r.Options != nil && r.sniffer != nil && f != nil
//@   requires forall k formats.Format :: (k in unserializers) ==> unserializers[k] != nil
//@   ensures [C04:parse:oneOf] (result1 == nil) != (result0 == nil)

// registry invariant: registered drivers are non-nil (precondition of RegisterUnserializer)
//@ func GetFormatUnserializer
//@   props C04
//@   requires forall f formats.Format :: (f in unserializers) ==> unserializers[f] != nil
//@   ensures [C04:registry:oneOf] (result1 == nil) ==> result0 != nil

//@ func Reader.ParseStream
//@   props C04
//@   requires r.Options != nil && r.sniffer != nil && f != nil
//@   requires forall k formats.Format :: (k in unserializers) ==> unserializers[k] != nil
//@   ensures [C04:parse:oneOf] (result1 == nil) != (result0 == nil)

//@ func Reader.ParseFile
//@   props C04
//@   requires r.Options != nil && r.sniffer != nil
//@   requires forall k formats.Format :: (k in unserializers) ==> unserializers[k] != nil
//@   ensures [C04:parse:oneOf] (result1 == nil) != (result0 == nil)

//@ func Reader.ParseFileWithOptions
//@   props C04
//@   requires r.Options != nil && r.sniffer != nil
//@   requires forall k formats.Format :: (k in unserializers) ==> unserializers[k] != nil
//@   ensures [C04:parse:oneOf] (result1 == nil) != (result0 == nil)

// ---------------------------------------------------------------------------
// C17: lock discipline of the package-level variables
// ---------------------------------------------------------------------------
//@ global regMtx trusted-concurrent
//@ global unserializers guarded_by regMtx
//@ global defaultUnserializeOptions immutable-after-init
//@ global defaultOptions immutable-after-init
//@ package-props C17

//@ type ReaderOption(r *Reader)
//@   requires r != nil && r.Options != nil
//@   assigns r.sniffer, r.Storage, r.Options.*, (r.Options.formatOptions)[*]
//@   ensures [C18:option:map] r.Options.formatOptions == old(r.Options.formatOptions) || fresh(r.Options.formatOptions)

//@ func WithFormatOptions$1
//@   props C18
//@   requires r != nil && r.Options != nil
//@   assigns r.sniffer, r.Storage, r.Options.*, (r.Options.formatOptions)[*]
//@   ensures [C18:option:map] r.Options.formatOptions == old(r.Options.formatOptions) || fresh(r.Options.formatOptions)
//@ func WithUnserializeOptions$1
//@   props C18
//@   requires r != nil && r.Options != nil
//@   assigns r.sniffer, r.Storage, r.Options.*, (r.Options.formatOptions)[*]
//@   ensures [C18:option:map] r.Options.formatOptions == old(r.Options.formatOptions) || fresh(r.Options.formatOptions)
//@ func WithSniffer$1
//@   props C18
//@   requires r != nil && r.Options != nil
//@   assigns r.sniffer, r.Storage, r.Options.*, (r.Options.formatOptions)[*]
//@   ensures [C18:option:map] r.Options.formatOptions == old(r.Options.formatOptions) || fresh(r.Options.formatOptions)
//@ func WithStoreRetriever$1
//@   props C18
//@   requires r != nil && r.Options != nil
//@   assigns r.sniffer, r.Storage, r.Options.*, (r.Options.formatOptions)[*]
//@   ensures [C18:option:map] r.Options.formatOptions == old(r.Options.formatOptions) || fresh(r.Options.formatOptions)
//@ func WithRetrieveOptions$1
//@   props C18
//@   requires r != nil && r.Options != nil
//@   assigns r.sniffer, r.Storage, r.Options.*, (r.Options.formatOptions)[*]
//@   ensures [C18:option:map] r.Options.formatOptions == old(r.Options.formatOptions) || fresh(r.Options.formatOptions)

//@ func New
//@   props C18
//@   requires defaultOptions != nil
//@   assigns \nothing
//@   ensures [C18:new:freshInstance] result != nil && fresh(result) && result.Options != nil && fresh(result.Options)
//@   ensures [C18:new:freshStorage] len(opts) == 0 && typeis(result.Storage, *storage.FileSystem) ==> fresh(as(result.Storage, *storage.FileSystem))
//@   invariant L0: len(opts) == 0 && typeis(r.Storage, *storage.FileSystem) ==> fresh(as(r.Storage, *storage.FileSystem))
