//go:build verif

// Contracts for package sbom, read by /verif/govc (comment-only file: with the
// build tag off the compiler does not even parse it).
package sbom

// ---------------------------------------------------------------------------
// Valid input values: repeated message fields hold no nil element.
// ---------------------------------------------------------------------------

//@ typeinv NodeList: (forall i int :: 0 <= i && i < len(self.Nodes) ==> self.Nodes[i] != nil) && (forall j int :: 0 <= j && j < len(self.Edges) ==> self.Edges[j] != nil)
//@ typeinv Node: (forall i int :: 0 <= i && i < len(self.Suppliers) ==> self.Suppliers[i] != nil) && (forall j int :: 0 <= j && j < len(self.Originators) ==> self.Originators[j] != nil) && (forall k int :: 0 <= k && k < len(self.ExternalReferences) ==> self.ExternalReferences[k] != nil)
//@ typeinv Metadata: (forall i int :: 0 <= i && i < len(self.Tools) ==> self.Tools[i] != nil) && (forall j int :: 0 <= j && j < len(self.Authors) ==> self.Authors[j] != nil) && (forall k int :: 0 <= k && k < len(self.DocumentTypes) ==> self.DocumentTypes[k] != nil)
//@ typeinv Person: forall i int :: 0 <= i && i < len(self.Contacts) ==> self.Contacts[i] != nil

// ---------------------------------------------------------------------------
// C11 (read-only operations leave operands unchanged): assigns \nothing
// C12 (copies are independent values): owns
// ---------------------------------------------------------------------------

//@ func Person.Copy
//@   props C11, C12
//@   assigns \nothing
//@   owns
//@   ensures result != nil
//@   ensures-each Person[string,enum,int,bool]: [C12:copy:$f] result.$f == p.$f

//@ func ExternalReference.Copy
//@   props C11, C12
//@   assigns \nothing
//@   owns
//@   ensures result != nil
//@   ensures-each ExternalReference[string,enum,int,bool]: [C12:copy:$f] result.$f == e.$f
//@   ensures-each ExternalReference[map]: [C12:copy:$f] sameMap(result.$f, e.$f)

//@ func Edge.Copy
//@   props C11, C12, C08, C09, C10
//@   assigns \nothing
//@   owns
//@   ensures result != nil
//@   ensures [fresh] fresh(result)
//@   ensures [freshTo] arr(result.To) == nil || fresh(arr(result.To))
//@   ensures [C12:copy:edge] result.From == e.From && result.Type == e.Type && len(result.To) == len(e.To) && (forall j int :: 0 <= j && j < len(e.To) ==> result.To[j] == e.To[j])

//@ func Node.Copy
//@   props C11, C12, C08, C09, C10
//@   assigns \nothing
//@   owns
//@   ensures result != nil
//@   ensures [fresh] fresh(result)
//@   ensures-each Node[string,enum,int,bool]: [C12:copy:$f] result.$f == n.$f
//@   ensures-each Node[slice]: [C12:copy:$f] len(result.$f) == len(n.$f) && (forall j int :: 0 <= j && j < len(n.$f) ==> result.$f[j] == n.$f[j])
//@   ensures-each Node[map]: [C12:copy:$f] sameMap(result.$f, n.$f)
//@   ensures-each Node[ptr]: [C12:copy:$f] (result.$f == nil) <==> (n.$f == nil)
//@   ensures-each Node[ptrslice]: [C12:copy:$f] len(result.$f) == len(n.$f)
//@   invariant L0: [C12:inv] len(no.Suppliers) == _i
//@   invariant L1: [C12:inv] len(no.Suppliers) == len(n.Suppliers) && len(no.Originators) == _i
//@   invariant L2: [C12:inv] len(no.Suppliers) == len(n.Suppliers) && len(no.Originators) == len(n.Originators) && len(no.ExternalReferences) == _i

//@ func NodeList.Copy
//@   props C11, C12
//@   assigns \nothing
//@   owns
//@   ensures result != nil
//@   ensures [C12:copy:nodelist] len(result.Nodes) == len(nl.Nodes) && len(result.Edges) == len(nl.Edges) && len(result.RootElements) == len(nl.RootElements) && (forall j int :: 0 <= j && j < len(nl.RootElements) ==> result.RootElements[j] == nl.RootElements[j]) && (forall i int :: 0 <= i && i < len(nl.Nodes) ==> result.Nodes[i] != nil && result.Nodes[i].Id == nl.Nodes[i].Id) && (forall k int :: 0 <= k && k < len(nl.Edges) ==> result.Edges[k] != nil && result.Edges[k].From == nl.Edges[k].From && result.Edges[k].Type == nl.Edges[k].Type)

//@ func copyEdgeList
//@   props C11, C12, C08, C09, C10
//@   inline
//@   assigns \nothing
//@   owns
//@   invariant L0: [C12:inv] len(edgeCopy) == _i && (forall k int :: 0 <= k && k < _i ==> edgeCopy[k] != nil && fresh(edgeCopy[k]) && edgeCopy[k].From == original[k].From && edgeCopy[k].Type == original[k].Type)
//@   invariant L0: [C08:idx] forall e *Edge :: (e in elems(edgeCopy)) ==> e != nil && fresh(e) && allocated(e) && allocated(arr(e.To)) && (arr(e.To) == nil || fresh(arr(e.To)))

//@ func copyNodeSlice
//@   props C11, C12
//@   inline
//@   assigns \nothing
//@   owns
//@   invariant L0: [C12:inv] len(nodeCopy) == _i && (forall i int :: 0 <= i && i < _i ==> nodeCopy[i] != nil && fresh(nodeCopy[i]) && nodeCopy[i].Id == original[i].Id)

//@ func NodeList.Union
//@   props C11, C12, C08, C09
//@   requires nl2 != nil
//@   assigns \nothing
//@   owns
//@   requires validNL(nl) && validNL(nl2)
//@   ensures [C09:union:result] result != nil && fresh(result) && validNL(result)
//@   ensures [C09:union:ids] forall x string :: (x in fieldset(result.Nodes, Id)) <==> ((x in fieldset(nl.Nodes, Id)) || (x in fieldset(nl2.Nodes, Id)))
//@   ensures [C09:union:roots] forall r string :: (r in elems(result.RootElements)) <==> ((r in elems(nl.RootElements)) || (r in elems(nl2.RootElements)))
//@   ensures [C08:union:rootsClosed] closedRoots(nl) && closedRoots(nl2) ==> closedRoots(result)
//@   ensures [C08:union:edgesClosed] closedEdges(result)
//@   invariant L0: [C09:inv] allocated(arr(ret.RootElements)) && (forall e *Edge :: (e in elems(ret.Edges)) ==> fresh(e) && allocated(e) && (arr(e.To) == nil || (fresh(arr(e.To)) && arr(e.To) != arr(ret.RootElements))))
//@   invariant L0: [C09:inv] forall r string :: (r in elems(ret.RootElements)) <==> (r in elems(nl.RootElements))
//@   invariant L1: [C09:inv] allocated(arr(ret.RootElements)) && (forall e *Edge :: (e in elems(ret.Edges)) ==> fresh(e) && allocated(e) && (arr(e.To) == nil || (fresh(arr(e.To)) && arr(e.To) != arr(ret.RootElements))))
//@   invariant L1: [C09:inv] forall r string :: (r in elems(ret.RootElements)) <==> (r in elems(nl.RootElements))
//@   invariant L2: [C09:inv] allocated(arr(ret.RootElements)) && (forall e *Edge :: (e in elems(ret.Edges)) ==> fresh(e) && allocated(e) && (arr(e.To) == nil || (fresh(arr(e.To)) && arr(e.To) != arr(ret.RootElements))))
//@   invariant L2: [C09:inv] forall r string :: (r in elems(ret.RootElements)) <==> (r in elems(nl.RootElements))
//@   invariant L3: [C09:inv] allocated(arr(ret.RootElements)) && (forall e *Edge :: (e in elems(ret.Edges)) ==> fresh(e) && allocated(e) && (arr(e.To) == nil || (fresh(arr(e.To)) && arr(e.To) != arr(ret.RootElements))))
//@   invariant L3: [C09:inv] forall r string :: (r in elems(ret.RootElements)) <==> (r in elems(nl.RootElements))
//@   invariant L3: [C09:inv] (existingEdge in elems(ret.Edges))
//@   invariant L4: [C09:inv] forall r string :: (r in elems(ret.RootElements)) <==> ((r in elems(nl.RootElements)) || (r in elemsn(nl2.RootElements, _i)))
//@   invariant L4: [C09:inv] forall k string :: (k in rootNodes) ==> (k in elems(nl.RootElements))
//@   ensures [C09:union:order] len(result.Nodes) >= len(nl.Nodes) && (forall i0 int :: 0 <= i0 && i0 < len(nl.Nodes) ==> result.Nodes[i0].Id == nl.Nodes[i0].Id)
//@   ensures [C09:union:secondWins:Version] (uniqueIdx(nl) && uniqueIdx(nl2)) ==> (forall i0 int, j int :: 0 <= i0 && i0 < len(nl.Nodes) && 0 <= j && j < len(nl2.Nodes) && nl2.Nodes[j].Id == nl.Nodes[i0].Id && nl2.Nodes[j].Version != "" ==> result.Nodes[i0].Version == nl2.Nodes[j].Version)
//@   ensures [C09:union:firstKept:Version] (uniqueIdx(nl) && uniqueIdx(nl2)) ==> (forall i0 int, j int :: 0 <= i0 && i0 < len(nl.Nodes) && 0 <= j && j < len(nl2.Nodes) && nl2.Nodes[j].Id == nl.Nodes[i0].Id && nl2.Nodes[j].Version == "" ==> result.Nodes[i0].Version == nl.Nodes[i0].Version)
//@   ensures [C09:union:untouched:Version] (uniqueIdx(nl) && uniqueIdx(nl2)) ==> (forall i0 int :: 0 <= i0 && i0 < len(nl.Nodes) && (forall j int :: 0 <= j && j < len(nl2.Nodes) ==> nl2.Nodes[j].Id != nl.Nodes[i0].Id) ==> result.Nodes[i0].Version == nl.Nodes[i0].Version)
//@   invariant L0: [C09:inv] len(ret.Nodes) == _i && (forall i0 int :: 0 <= i0 && i0 < _i ==> ret.Nodes[i0] != nil && fresh(ret.Nodes[i0]) && ret.Nodes[i0].Id == nl.Nodes[i0].Id && ret.Nodes[i0].Version == nl.Nodes[i0].Version)
//@   invariant L1: [C09:inv] len(ret.Nodes) >= len(nl.Nodes) && (forall i0 int :: 0 <= i0 && i0 < len(nl.Nodes) ==> ret.Nodes[i0] != nil && fresh(ret.Nodes[i0]) && ret.Nodes[i0].Id == nl.Nodes[i0].Id)
//@   invariant L1: [C09:inv] uniqueIdx(nl) ==> (forall i0 int :: 0 <= i0 && i0 < len(nl.Nodes) ==> (nl.Nodes[i0].Id in nodeindex) && nodeindex[nl.Nodes[i0].Id] == ret.Nodes[i0])
//@   invariant L1: [C09:inv] (uniqueIdx(nl) && uniqueIdx(nl2)) ==> (forall i0 int, j int :: 0 <= i0 && i0 < len(nl.Nodes) && 0 <= j && j < _i && nl2.Nodes[j].Id == nl.Nodes[i0].Id && nl2.Nodes[j].Version != "" ==> ret.Nodes[i0].Version == nl2.Nodes[j].Version)
//@   invariant L1: [C09:inv] (uniqueIdx(nl) && uniqueIdx(nl2)) ==> (forall i0 int, j int :: 0 <= i0 && i0 < len(nl.Nodes) && 0 <= j && j < _i && nl2.Nodes[j].Id == nl.Nodes[i0].Id && nl2.Nodes[j].Version == "" ==> ret.Nodes[i0].Version == nl.Nodes[i0].Version)
//@   invariant L1: [C09:inv] (uniqueIdx(nl) && uniqueIdx(nl2)) ==> (forall i0 int :: 0 <= i0 && i0 < len(nl.Nodes) && (forall j int :: 0 <= j && j < _i ==> nl2.Nodes[j].Id != nl.Nodes[i0].Id) ==> ret.Nodes[i0].Version == nl.Nodes[i0].Version)
//@   ensures [C08:union:normalised] normalisedNL(result)
//@   invariant L0: [C09:inv] !(nil in elems(ret.Nodes)) && !(nil in elems(ret.Edges)) && (forall p *Node :: (p in elems(ret.Nodes)) ==> fresh(p))
//@   invariant L0: [C09:inv] (forall x string :: (x in fieldset(ret.Nodes, Id)) <==> (x in fieldsetn(nl.Nodes, Id, _i)))
//@   invariant L1: [C09:inv] !(nil in elems(ret.Nodes)) && !(nil in elems(ret.Edges)) && (forall p *Node :: (p in elems(ret.Nodes)) ==> fresh(p))
//@   invariant L1: [C09:inv] (forall x string :: (x in fieldset(ret.Nodes, Id)) <==> ((x in fieldset(nl.Nodes, Id)) || (x in fieldsetn(nl2.Nodes, Id, _i))))
//@   invariant L1: [C09:inv] forall k string :: (k in nodeindex) ==> (k in fieldset(nl.Nodes, Id))
//@   invariant L1: [C09:inv] nodeindex != nil && fresh(nodeindex) && (forall k string :: (k in nodeindex) ==> nodeindex[k] != nil && fresh(nodeindex[k]) && nodeindex[k].Id == k && (nodeindex[k] in elems(ret.Nodes)))
//@   invariant L2: [C09:inv] !(nil in elems(ret.Edges))
//@   invariant L3: [C09:inv] !(nil in elems(ret.Edges)) && existingEdge != nil
//@   invariant L4: [C09:inv] validNL(ret) && closedEdges(ret) && normalisedNL(ret)
//@   invariant L4: [C09:inv] (forall e *Edge :: (e in elems(ret.Edges)) ==> arr(e.To) != arr(ret.RootElements) || arr(e.To) == nil)

//@ func NodeList.Intersect
//@   props C11, C12, C08, C10
//@   requires nl2 != nil
//@   assigns \nothing
//@   owns
//@   requires validNL(nl) && validNL(nl2)
//@   ensures [C10:intersect:result] result != nil && fresh(result) && validNL(result)
//@   ensures [C10:intersect:ids] forall x string :: (x in fieldset(result.Nodes, Id)) <==> ((x in fieldset(nl.Nodes, Id)) && (x in fieldset(nl2.Nodes, Id)))
//@   ensures [C10:intersect:roots] forall r string :: (r in elems(result.RootElements)) <==> ((r in fieldset(result.Nodes, Id)) && ((r in elems(nl.RootElements)) || (r in elems(nl2.RootElements))))
//@   ensures [C10:intersect:secondWins:Version] (uniqueIdx(nl) && uniqueIdx(nl2)) ==> (forall a int, i0 int, j int :: 0 <= a && a < len(result.Nodes) && 0 <= i0 && i0 < len(nl.Nodes) && 0 <= j && j < len(nl2.Nodes) && result.Nodes[a].Id == nl.Nodes[i0].Id && result.Nodes[a].Id == nl2.Nodes[j].Id ==> result.Nodes[a].Version == (nl2.Nodes[j].Version != "" ? nl2.Nodes[j].Version : nl.Nodes[i0].Version))
//@   invariant L0: [C10:inv] (uniqueIdx(nl) && uniqueIdx(nl2)) ==> (forall a int, i0 int, j int :: 0 <= a && a < len(ret.Nodes) && 0 <= i0 && i0 < len(nl.Nodes) && 0 <= j && j < len(nl2.Nodes) && ret.Nodes[a].Id == nl.Nodes[i0].Id && ret.Nodes[a].Id == nl2.Nodes[j].Id ==> ret.Nodes[a].Version == (nl2.Nodes[j].Version != "" ? nl2.Nodes[j].Version : nl.Nodes[i0].Version))
//@   invariant L0: [C10:inv] uniqueIdx(nl) ==> (forall i0 int :: 0 <= i0 && i0 < len(nl.Nodes) ==> (nl.Nodes[i0].Id in ni1) && ni1[nl.Nodes[i0].Id] == nl.Nodes[i0])
//@   invariant L0: [C10:inv] uniqueIdx(nl2) ==> (forall j int :: 0 <= j && j < len(nl2.Nodes) ==> (nl2.Nodes[j].Id in ni2) && ni2[nl2.Nodes[j].Id] == nl2.Nodes[j])
//@   invariant L0: [C10:inv] forall a int :: 0 <= a && a < len(ret.Nodes) ==> ret.Nodes[a] != nil && fresh(ret.Nodes[a])
//@   ensures [C08:intersect:uniqueIds] forall i int, j int :: 0 <= i && i < j && j < len(result.Nodes) ==> result.Nodes[i].Id != result.Nodes[j].Id
//@   ensures [C08:intersect:rootsClosed] closedRoots(result)
//@   ensures [C08:intersect:edgesClosed] closedEdges(result)
//@   ensures [C08:intersect:normalised] normalisedNL(result)
//@   invariant L0: [C10:inv] !(nil in elems(ret.Nodes)) && !(nil in elems(ret.Edges)) && (forall p *Node :: (p in elems(ret.Nodes)) ==> fresh(p))
//@   invariant L0: [C10:inv] (forall k string :: (k in ni1) <==> (k in fieldset(nl.Nodes, Id))) && (forall k string :: (k in ni2) <==> (k in fieldset(nl2.Nodes, Id))) && (forall k string :: (k in ni1) ==> ni1[k] != nil && ni1[k].Id == k) && (forall k string :: (k in ni2) ==> ni2[k] != nil && ni2[k].Id == k)
//@   invariant L0: [C10:inv] forall k string :: (k in _V) ==> (k in ni1)
//@   invariant L0: [C10:inv] (forall k string :: (k in rootElements) <==> (k in elems(nl.RootElements))) && (forall k string :: (k in rootElements2) <==> (k in elems(nl2.RootElements)))
//@   invariant L0: [C10:inv] (forall x string :: (x in fieldset(ret.Nodes, Id)) <==> ((x in _V) && (x in ni2)))
//@   invariant L0: [C10:inv] (forall r string :: (r in elems(ret.RootElements)) <==> ((r in _V) && (r in ni2) && ((r in rootElements) || (r in rootElements2))))
//@   invariant L0: [C10:inv] (forall i int, j int :: 0 <= i && i < j && j < len(ret.Nodes) ==> ret.Nodes[i].Id != ret.Nodes[j].Id) && (forall i int :: 0 <= i && i < len(ret.Nodes) ==> (ret.Nodes[i].Id in _V))
//@   invariant L0: [C10:inv] allocated(arr(ret.RootElements)) && (forall e *Edge :: (e in elems(ret.Edges)) ==> fresh(e) && allocated(e) && (arr(e.To) == nil || (fresh(arr(e.To)) && arr(e.To) != arr(ret.RootElements))))
//@   invariant L1: [C10:inv] !(nil in elems(ret.Edges))
//@   invariant L1: [C10:inv] allocated(arr(ret.RootElements)) && (forall e *Edge :: (e in elems(ret.Edges)) ==> fresh(e) && allocated(e) && (arr(e.To) == nil || (fresh(arr(e.To)) && arr(e.To) != arr(ret.RootElements))))
//@   invariant L1: [C10:inv] (forall r string :: (r in elems(ret.RootElements)) <==> ((r in fieldset(ret.Nodes, Id)) && ((r in elems(nl.RootElements)) || (r in elems(nl2.RootElements)))))
//@   invariant L2: [C10:inv] !(nil in elems(ret.Edges)) && existingEdge != nil && (existingEdge in elems(ret.Edges))
//@   invariant L2: [C10:inv] allocated(arr(ret.RootElements)) && (forall e *Edge :: (e in elems(ret.Edges)) ==> fresh(e) && allocated(e) && (arr(e.To) == nil || (fresh(arr(e.To)) && arr(e.To) != arr(ret.RootElements))))
//@   invariant L2: [C10:inv] (forall r string :: (r in elems(ret.RootElements)) <==> ((r in fieldset(ret.Nodes, Id)) && ((r in elems(nl.RootElements)) || (r in elems(nl2.RootElements)))))
//@   invariant L3: [C10:inv] !(nil in elems(ret.Edges)) && existingEdge != nil && (existingEdge in elems(ret.Edges)) && invDict != nil
//@   invariant L3: [C10:inv] allocated(arr(ret.RootElements)) && (forall e *Edge :: (e in elems(ret.Edges)) ==> fresh(e) && allocated(e) && (arr(e.To) == nil || (fresh(arr(e.To)) && arr(e.To) != arr(ret.RootElements))))
//@   invariant L3: [C10:inv] (forall r string :: (r in elems(ret.RootElements)) <==> ((r in fieldset(ret.Nodes, Id)) && ((r in elems(nl.RootElements)) || (r in elems(nl2.RootElements)))))

// ---- comparing, hashing, flattening ----

//@ func Node.Equal
//@   props C11
//@   assigns \nothing

//@ func Node.flatString
//@   props C11
//@   assigns \nothing

//@ func Node.Checksum
//@   props C11
//@   assigns \nothing

//@ func flatStringMap
//@   props C11
//@   assigns \nothing

//@ func flatStringStrSlice
//@   props C11
//@   assigns \nothing

//@ func Edge.Equal
//@   props C11
//@   assigns \nothing

//@ func Edge.flatString
//@   props C11, C13
//@   assigns \nothing
//@   reads-each Edge[all]: [C13:key:edge:$f]

//@ func Edge.PointsTo
//@   props C11
//@   inline
//@   assigns \nothing

//@ func Person.flatString
//@   props C11, C14, C13
//@   pure
//@   assigns \nothing
//@   reads-each Person[all]: [C14:key:person:$f]
//@   reads-each Person[all]: [C13:key:person:$f]

//@ func Person.ToSPDX2ClientString
//@   props C11
//@   inline
//@   assigns \nothing

//@ func Person.ToSPDX2ClientOrg
//@   props C11
//@   inline
//@   assigns \nothing

// the diff (C14) and equality (C13) of external references go through this key
//@ func ExternalReference.flatString
//@   props C11, C14, C13
//@   pure
//@   assigns \nothing
//@   reads-each ExternalReference[all]: [C14:key:extref:$f]
//@   reads-each ExternalReference[all]: [C13:key:extref:$f]

//@ func NodeList.Equal
//@   props C11, C13
//@   assigns \nothing
//@   ensures [C13:equal:nil] nl2 == nil ==> !result
//@   ensures [C13:equal:lengths] result ==> len(nl.Nodes) == len(nl2.Nodes) && len(nl.Edges) == len(nl2.Edges) && len(nl.RootElements) == len(nl2.RootElements)
//@   ensures [C13:equal:roots] result ==> (forall x string :: (x in elems(nl.RootElements)) <==> (x in elems(nl2.RootElements)))

// ---- diffing ----

//@ func Node.Diff
//@   props C11
//@   requires n2 != nil
//@   assigns \nothing

// ---- look-ups ----

//@ func Node.Purl
//@   props C11, C16
//@   inline
//@   assigns \nothing
//@   ensures [C16:purl] result == (n.Type == 1 ? "" : ((1 in n.Identifiers) ? n.Identifiers[1] : ""))

//@ func Node.HashesMatch
//@   props C11, C16
//@   inline
//@   assigns \nothing
//@   ensures [C16:hashesMatch] result <==> hashesMatch(n, th)
//@   invariant L0: len(n.Hashes) > 0 && len(th) > 0 && (forall c int32 :: (c in _V) ==> (c in th)) && (atLeastOneMatch <==> (exists a int32 :: (a in _V) && (a in n.Hashes) && th[a] != "" && n.Hashes[a] != "")) && (forall b int32 :: (b in _V) && (b in n.Hashes) && th[b] != "" && n.Hashes[b] != "" ==> n.Hashes[b] == th[b])

//@ func NodeList.GetNodesByName
//@   props C11, C16
//@   inline
//@   assigns \nothing
//@   ensures [C16:byName:exact] forall p *Node :: (p in elems(result)) <==> ((p in elems(nl.Nodes)) && p.Name == name)
//@   invariant L0: forall p *Node :: (p in elems(ret)) <==> ((p in elemsn(nl.Nodes, _i)) && p.Name == name)

//@ func NodeList.GetNodeByID
//@   props C11, C16
//@   inline
//@   assigns \nothing
//@   ensures [C16:byID:nilIffAbsent] (result == nil) <==> !(id in fieldset(nl.Nodes, Id))
//@   ensures [C16:byID:match] result != nil ==> result.Id == id && (result in elems(nl.Nodes))
//@   invariant L0: !(id in fieldsetn(nl.Nodes, Id, _i))

//@ func NodeList.GetNodesByIdentifier
//@   props C11, C16
//@   inline
//@   assigns \nothing
//@   ensures [C16:byIdentifier:exact] forall p *Node :: (p in elems(result)) <==> ((p in elems(nl.Nodes)) && p.Identifiers != nil && (idType in p.Identifiers) && p.Identifiers[idType] == v)
//@   ensures [C16:byIdentifier:type] idType == SoftwareIdentifierTypeFromString(t)
//@   invariant L0: forall p *Node :: (p in elems(ret)) <==> ((p in elemsn(nl.Nodes, _i)) && p.Identifiers != nil && (idType in p.Identifiers) && p.Identifiers[idType] == v)

//@ func NodeList.GetRootNodes
//@   props C11, C16
//@   inline
//@   assigns \nothing
//@   requires [C16:pre] validNL(nl)
//@   ensures [C16:roots:exact] forall p *Node :: (p in elems(result)) <==> ((p in elems(nl.Nodes)) && (p.Id in elems(nl.RootElements)))
//@   invariant L0: [C16:inv] index != nil && fresh(index) && (forall k string :: (k in index) <==> (k in elemsn(nl.RootElements, _i)))
//@   invariant L1: [C16:inv] index != nil && (forall k string :: (k in index) <==> (k in elems(nl.RootElements)))
//@   invariant L1: [C16:inv] forall p *Node :: (p in elems(ret)) <==> ((p in elemsn(nl.Nodes, _i)) && (p.Id in elems(nl.RootElements)))

//@ func Document.GetRootNodes
//@   props C11
//@   requires d.NodeList != nil
//@   assigns \nothing

// the rule of Node.HashesMatch: both sides have hashes, at least one algorithm is common and all common ones agree;
// an algorithm is common when both sides carry a non-empty value for it
//@ pred hashesMatch(n *Node, th map[int32]string) = len(n.Hashes) > 0 && len(th) > 0 && (exists a int32 :: (a in th) && (a in n.Hashes) && th[a] != "" && n.Hashes[a] != "") && (forall b int32 :: (b in th) && (b in n.Hashes) && th[b] != "" && n.Hashes[b] != "" ==> n.Hashes[b] == th[b])

//@ func NodeList.GetMatchingNode
//@   props C11, C16
//@   requires node != nil
//@   requires [C16:pre] validNL(nl) && uniqueById(nl)
//@   assigns \nothing
//@   ensures [C16:match:inList] result0 != nil ==> (result0 in elems(nl.Nodes))
//@   ensures [C16:match:rule] result0 != nil ==> hashesMatch(result0, node.Hashes) || (purlOf(node) != "" && purlOf(result0) == purlOf(node))
//@   ensures [C16:match:err] result0 != nil ==> result1 == nil
//@   ensures [C16:match:hashFirst] forall i int :: 0 <= i && i < len(nl.Nodes) && hashesMatch(nl.Nodes[i], node.Hashes) && result0 != nil ==> hashesMatch(result0, node.Hashes)
//@   ensures [C16:match:uniqueHash] forall i int :: 0 <= i && i < len(nl.Nodes) && hashesMatch(nl.Nodes[i], node.Hashes) && (forall q *Node :: (q in elems(nl.Nodes)) && hashesMatch(q, node.Hashes) ==> q == nl.Nodes[i]) ==> result0 == nl.Nodes[i] && result1 == nil
//@   ensures [C16:match:ambiguous] forall i int, j int :: 0 <= i && i < len(nl.Nodes) && 0 <= j && j < len(nl.Nodes) && hashesMatch(nl.Nodes[i], node.Hashes) && hashesMatch(nl.Nodes[j], node.Hashes) && nl.Nodes[i].Id != nl.Nodes[j].Id && purlOf(node) == "" ==> result0 == nil && result1 == ErrorMoreThanOneMatch
//@   ensures [C16:match:none] (forall q *Node :: (q in elems(nl.Nodes)) ==> !hashesMatch(q, node.Hashes)) && (purlOf(node) == "" || (forall q *Node :: (q in elems(nl.Nodes)) ==> purlOf(q) != purlOf(node))) ==> result0 == nil && result1 == nil
//@   ensures [C16:match:purlFallback] (forall q *Node :: (q in elems(nl.Nodes)) ==> !hashesMatch(q, node.Hashes)) && purlOf(node) != "" ==> (forall i int :: 0 <= i && i < len(nl.Nodes) && purlOf(nl.Nodes[i]) == purlOf(node) && result0 != nil ==> result0 == nl.Nodes[i])
//@   ensures [C16:match:purlAmbiguous] (forall q *Node :: (q in elems(nl.Nodes)) ==> !hashesMatch(q, node.Hashes)) && purlOf(node) != "" ==> (forall i int, j int :: 0 <= i && i < len(nl.Nodes) && 0 <= j && j < len(nl.Nodes) && purlOf(nl.Nodes[i]) == purlOf(node) && purlOf(nl.Nodes[j]) == purlOf(node) && nl.Nodes[i] != nl.Nodes[j] ==> result0 == nil && result1 == ErrorMoreThanOneMatch)
//@   ensures [C16:match:tieBreak] forall i int, j int, m int :: 0 <= i && i < len(nl.Nodes) && 0 <= j && j < len(nl.Nodes) && hashesMatch(nl.Nodes[i], node.Hashes) && hashesMatch(nl.Nodes[j], node.Hashes) && nl.Nodes[i].Id != nl.Nodes[j].Id && 0 <= m && m < len(nl.Nodes) && hashesMatch(nl.Nodes[m], node.Hashes) && purlOf(nl.Nodes[m]) == purlOf(node) && result0 != nil ==> result0 == nl.Nodes[m]
//@   ensures [C16:match:tieBreakSound] forall i int, j int :: 0 <= i && i < len(nl.Nodes) && 0 <= j && j < len(nl.Nodes) && hashesMatch(nl.Nodes[i], node.Hashes) && hashesMatch(nl.Nodes[j], node.Hashes) && nl.Nodes[i].Id != nl.Nodes[j].Id && result0 != nil ==> purlOf(node) != "" && purlOf(result0) == purlOf(node)
//@   ensures [C16:match:tieBreakNone] forall i int, j int :: 0 <= i && i < len(nl.Nodes) && 0 <= j && j < len(nl.Nodes) && hashesMatch(nl.Nodes[i], node.Hashes) && hashesMatch(nl.Nodes[j], node.Hashes) && nl.Nodes[i].Id != nl.Nodes[j].Id && (forall q *Node :: (q in elems(nl.Nodes)) && hashesMatch(q, node.Hashes) ==> purlOf(q) != purlOf(node)) ==> result0 == nil && result1 == ErrorMoreThanOneMatch
//@   ensures [C16:match:tieBreakAmbiguous] forall i int, j int :: 0 <= i && i < len(nl.Nodes) && 0 <= j && j < len(nl.Nodes) && hashesMatch(nl.Nodes[i], node.Hashes) && hashesMatch(nl.Nodes[j], node.Hashes) && nl.Nodes[i].Id != nl.Nodes[j].Id && purlOf(nl.Nodes[i]) == purlOf(node) && purlOf(nl.Nodes[j]) == purlOf(node) ==> result0 == nil && result1 == ErrorMoreThanOneMatch
//@   invariant L2: [C16:inv] testPurl == purlOf(node) && testPurl != "" && 0 <= len(foundByPurl)
//@   invariant L2: [C16:inv] forall k string :: (k in _V) && purlOf(foundNodes[k]) == testPurl ==> len(foundByPurl) >= 1 && (len(foundByPurl) == 1 ==> foundByPurl[0] == foundNodes[k])
//@   invariant L2: [C16:inv] forall k1 string, k2 string :: (k1 in _V) && (k2 in _V) && k1 != k2 && purlOf(foundNodes[k1]) == testPurl && purlOf(foundNodes[k2]) == testPurl ==> len(foundByPurl) >= 2
//@   invariant L2: [C16:inv] forall k string :: (k in _V) ==> (k in foundNodes)
//@   invariant L0: [C16:inv] foundNodes != nil && fresh(foundNodes) && (forall k string :: (k in foundNodes) ==> foundNodes[k].Id == k && foundNodes[k] != nil && (foundNodes[k] in elems(nl.Nodes)) && hashesMatch(foundNodes[k], node.Hashes))
//@   invariant L0: [C16:inv] hashIndex != nil && (forall k string, j int :: (k in hashIndex) && 0 <= j && j < len(hashIndex[k]) ==> hashIndex[k][j] != nil && (hashIndex[k][j] in elems(nl.Nodes)))
//@   invariant L0: [C16:inv] forall i int, a int32 :: 0 <= i && i < len(nl.Nodes) && (a in nl.Nodes[i].Hashes) && nl.Nodes[i].Hashes[a] != "" ==> inBucket(hashIndex, hashkey(a, nl.Nodes[i].Hashes[a]), nl.Nodes[i])
//@   invariant L0: [C16:inv] forall i int, a int32 :: 0 <= i && i < len(nl.Nodes) && hashesMatch(nl.Nodes[i], node.Hashes) && (a in _V) && (a in nl.Nodes[i].Hashes) && node.Hashes[a] != "" && nl.Nodes[i].Hashes[a] == node.Hashes[a] ==> (nl.Nodes[i].Id in foundNodes)
//@   invariant L1: [C16:inv] foundNodes != nil && fresh(foundNodes) && (forall k string :: (k in foundNodes) ==> foundNodes[k].Id == k && foundNodes[k] != nil && (foundNodes[k] in elems(nl.Nodes)) && hashesMatch(foundNodes[k], node.Hashes))
//@   invariant L1: [C16:inv] hashIndex != nil && (forall k string, j int :: (k in hashIndex) && 0 <= j && j < len(hashIndex[k]) ==> hashIndex[k][j] != nil && (hashIndex[k][j] in elems(nl.Nodes)))
//@   invariant L1: [C16:inv] forall i int, a int32 :: 0 <= i && i < len(nl.Nodes) && (a in nl.Nodes[i].Hashes) && nl.Nodes[i].Hashes[a] != "" ==> inBucket(hashIndex, hashkey(a, nl.Nodes[i].Hashes[a]), nl.Nodes[i])
//@   invariant L1: [C16:inv] (algo in node.Hashes) && node.Hashes[algo] == hashVal && (hashkey(algo, hashVal) in hashIndex)
//@   invariant L1: [C16:inv] forall i int, a int32 :: 0 <= i && i < len(nl.Nodes) && hashesMatch(nl.Nodes[i], node.Hashes) && (a in _V1) && a != algo && (a in nl.Nodes[i].Hashes) && node.Hashes[a] != "" && nl.Nodes[i].Hashes[a] == node.Hashes[a] ==> (nl.Nodes[i].Id in foundNodes)
//@   invariant L1: [C16:inv] forall j int :: 0 <= j && j < _i && hashesMatch(hashIndex[hashkey(algo, hashVal)][j], node.Hashes) ==> (hashIndex[hashkey(algo, hashVal)][j].Id in foundNodes)
//@   invariant L2: [C16:inv] forall a int :: 0 <= a && a < len(foundByPurl) ==> foundByPurl[a] != nil && (foundByPurl[a] in elems(nl.Nodes)) && hashesMatch(foundByPurl[a], node.Hashes) && purlOf(foundByPurl[a]) == testPurl

//@ func NodeList.GetEdgeByType
//@   props C11, C16
//@   inline
//@   assigns \nothing
//@   ensures [C16:edgeByType:nilIffAbsent] (result == nil) <==> !(exists e *Edge :: (e in elems(nl.Edges)) && e.From == fromElement && e.Type == t)
//@   ensures [C16:edgeByType:match] result != nil ==> (result in elems(nl.Edges)) && result.From == fromElement && result.Type == t
//@   invariant L0: forall e *Edge :: (e in elemsn(nl.Edges, _i)) ==> !(e.From == fromElement && e.Type == t)

//@ func NodeList.GetNodesByPurlType
//@   props C11
//@   assigns \nothing

//@ func NodeList.indexNodes
//@   props C11, C08
//@   inline
//@   assigns \nothing
//@   ensures [C08:indexNodes:keys] result != nil && fresh(result) && (forall k string :: (k in result) <==> (k in fieldset(nl.Nodes, Id)))
//@   invariant L0: [C08:idx] ret != nil && fresh(ret) && (forall k string :: (k in ret) <==> (k in fieldsetn(nl.Nodes, Id, _i)))
//@   invariant L0: [C08:idx] forall k string :: (k in ret) ==> ret[k] != nil && ret[k].Id == k && (ret[k] in elemsn(nl.Nodes, _i))
//@   invariant L0: [C08:idx] uniqueIdx(nl) ==> (forall i0 int :: 0 <= i0 && i0 < _i ==> (nl.Nodes[i0].Id in ret) && ret[nl.Nodes[i0].Id] == nl.Nodes[i0])
//@   ensures [C08:indexNodes:byIndex] uniqueIdx(nl) ==> (forall i0 int :: 0 <= i0 && i0 < len(nl.Nodes) ==> (nl.Nodes[i0].Id in result) && result[nl.Nodes[i0].Id] == nl.Nodes[i0])
//@   ensures [C08:indexNodes:values] forall k string :: (k in result) ==> result[k] != nil && result[k].Id == k && (result[k] in elems(nl.Nodes))

//@ func NodeList.indexEdges
//@   props C11, C04, C08
//@   requires validNL(nl)
//@   assigns \nothing
//@   ensures [indexEdges:nonNil] forall f string, t Edge_Type, a int :: (f in result) && (t in result[f]) && 0 <= a && a < len(result[f][t]) ==> result[f][t][a] != nil
//@   invariant L0: forall f string, t Edge_Type, a int :: (f in index) && (t in index[f]) && 0 <= a && a < len(index[f][t]) ==> index[f][t][a] != nil
//@   ensures [indexEdges:shape] result != nil && fresh(result) && (forall f string, t Edge_Type :: (f in result) && (t in result[f]) ==> len(result[f][t]) >= 1 && fresh(result[f][t]) && result[f][t][0] != nil && (result[f][t][0] in elems(nl.Edges)))
//@   invariant L0: index != nil && fresh(index)
//@   invariant L0: forall f string :: (f in index) ==> index[f] != nil && fresh(index[f])
//@   invariant L0: forall g string, h string :: (g in index) && (h in index) && g != h ==> index[g] != index[h]
//@   invariant L0: forall f string, t Edge_Type :: (f in index) && (t in index[f]) ==> len(index[f][t]) >= 1 && fresh(index[f][t])
//@   invariant L0: forall f string, t Edge_Type :: (f in index) && (t in index[f]) ==> index[f][t][0] != nil && (index[f][t][0] in elems(nl.Edges))

//@ func NodeList.indexRootElements
//@   props C11, C08
//@   inline
//@   assigns \nothing
//@   ensures [C08:indexRoots:keys] result != nil && fresh(result) && (forall k string :: (k in result) <==> (k in elems(nl.RootElements)))
//@   invariant L0: index != nil && fresh(index) && (forall k string :: (k in index) <==> (k in elemsn(nl.RootElements, _i)))

// the purl a node is looked up by ("" for files and for nodes without one): the value of Node.Purl
//@ pred purlOf(n *Node) = (n.Type == 1 ? "" : ((1 in n.Identifiers) ? n.Identifiers[1] : ""))

// hash index: every bucket entry is a node of the list that carries the hash
// the bucket key names (key = fmt.Sprintf("%d:%s", algo, value), trusted injective)
//@ pred inBucket(m hashIndex, k string, p *Node) = (k in m) && (exists j int :: 0 <= j && j < len(m[k]) && m[k][j] == p)
//@ func NodeList.indexNodesByHash
//@   props C11, C16
//@   assigns \nothing
//@   requires [C16:pre] validNL(nl)
//@   ensures [C16:hashIndex:shape] result != nil && fresh(result) && (forall k string :: (k in result) ==> cap(result[k]) == 0 || fresh(arr(result[k])))
//@   ensures [C16:hashIndex:sound] forall k string, j int :: (k in result) && 0 <= j && j < len(result[k]) ==> result[k][j] != nil && (result[k][j] in elems(nl.Nodes)) && k == hashkey(hashkeyalgo(k), hashkeyval(k)) && (hashkeyalgo(k) in result[k][j].Hashes) && result[k][j].Hashes[hashkeyalgo(k)] == hashkeyval(k)
//@   ensures [C16:hashIndex:complete] forall i int, a int32 :: 0 <= i && i < len(nl.Nodes) && (a in nl.Nodes[i].Hashes) && nl.Nodes[i].Hashes[a] != "" ==> inBucket(result, hashkey(a, nl.Nodes[i].Hashes[a]), nl.Nodes[i])
//@   invariant L0: [C16:inv] forall i int, a int32 :: 0 <= i && i < _i && (a in nl.Nodes[i].Hashes) && nl.Nodes[i].Hashes[a] != "" ==> inBucket(ret, hashkey(a, nl.Nodes[i].Hashes[a]), nl.Nodes[i])
//@   invariant L1: [C16:inv] 0 <= _i1 && _i1 < len(nl.Nodes) && n == nl.Nodes[_i1]
//@   invariant L1: [C16:inv] forall i int, a int32 :: 0 <= i && i < _i1 && (a in nl.Nodes[i].Hashes) && nl.Nodes[i].Hashes[a] != "" ==> inBucket(ret, hashkey(a, nl.Nodes[i].Hashes[a]), nl.Nodes[i])
//@   invariant L1: [C16:inv] forall a int32 :: (a in _V) && n.Hashes[a] != "" ==> inBucket(ret, hashkey(a, n.Hashes[a]), n)
//@   invariant L0: ret != nil && fresh(ret) && (forall k string :: (k in ret) ==> cap(ret[k]) == 0 || fresh(arr(ret[k])))
//@   invariant L0: [C16:inv] forall k1 string, k2 string :: (k1 in ret) && (k2 in ret) && k1 != k2 ==> cap(ret[k1]) == 0 || arr(ret[k1]) != arr(ret[k2])
//@   invariant L0: [C16:inv] forall k string :: (k in ret) ==> 0 <= len(ret[k]) && len(ret[k]) <= cap(ret[k]) && allocated(arr(ret[k]))
//@   invariant L0: [C16:inv] forall k string, j int :: (k in ret) && 0 <= j && j < len(ret[k]) ==> ret[k][j] != nil && (ret[k][j] in elems(nl.Nodes)) && k == hashkey(hashkeyalgo(k), hashkeyval(k)) && (hashkeyalgo(k) in ret[k][j].Hashes) && ret[k][j].Hashes[hashkeyalgo(k)] == hashkeyval(k)
//@   invariant L1: n != nil && (n in elems(nl.Nodes)) && ret != nil && fresh(ret) && (forall k string :: (k in ret) ==> cap(ret[k]) == 0 || fresh(arr(ret[k])))
//@   invariant L1: [C16:inv] forall k1 string, k2 string :: (k1 in ret) && (k2 in ret) && k1 != k2 ==> cap(ret[k1]) == 0 || arr(ret[k1]) != arr(ret[k2])
//@   invariant L1: [C16:inv] forall k string :: (k in ret) ==> 0 <= len(ret[k]) && len(ret[k]) <= cap(ret[k]) && allocated(arr(ret[k]))
//@   invariant L1: [C16:inv] forall k string, j int :: (k in ret) && 0 <= j && j < len(ret[k]) ==> ret[k][j] != nil && (ret[k][j] in elems(nl.Nodes)) && k == hashkey(hashkeyalgo(k), hashkeyval(k)) && (hashkeyalgo(k) in ret[k][j].Hashes) && ret[k][j].Hashes[hashkeyalgo(k)] == hashkeyval(k)

//@ pred inPBucket(m map[PackageURL][]*Node, k PackageURL, p *Node) = (k in m) && (exists j int :: 0 <= j && j < len(m[k]) && m[k][j] == p)
//@ func NodeList.indexNodesByPurl
//@   props C11, C16
//@   assigns \nothing
//@   requires [C16:pre] validNL(nl)
//@   ensures [C16:purlIndex:shape] result != nil && fresh(result) && (forall k PackageURL :: (k in result) ==> cap(result[k]) == 0 || fresh(arr(result[k])))
//@   ensures [C16:purlIndex:sound] forall k PackageURL, j int :: (k in result) && 0 <= j && j < len(result[k]) ==> result[k][j] != nil && (result[k][j] in elems(nl.Nodes)) && k != "" && purlOf(result[k][j]) == k
//@   ensures [C16:purlIndex:complete] forall i int :: 0 <= i && i < len(nl.Nodes) && purlOf(nl.Nodes[i]) != "" ==> inPBucket(result, purlOf(nl.Nodes[i]), nl.Nodes[i])
//@   ensures [C16:purlIndex:nonEmpty] forall k PackageURL :: (k in result) ==> len(result[k]) >= 1
//@   invariant L0: [C16:inv] forall i int :: 0 <= i && i < _i && purlOf(nl.Nodes[i]) != "" ==> inPBucket(ret, purlOf(nl.Nodes[i]), nl.Nodes[i])
//@   invariant L0: [C16:inv] forall k PackageURL :: (k in ret) ==> len(ret[k]) >= 1
//@   invariant L0: ret != nil && fresh(ret) && (forall k PackageURL :: (k in ret) ==> cap(ret[k]) == 0 || fresh(arr(ret[k])))
//@   invariant L0: [C16:inv] forall k1 PackageURL, k2 PackageURL :: (k1 in ret) && (k2 in ret) && k1 != k2 ==> cap(ret[k1]) == 0 || arr(ret[k1]) != arr(ret[k2])
//@   invariant L0: [C16:inv] forall k PackageURL :: (k in ret) ==> 0 <= len(ret[k]) && len(ret[k]) <= cap(ret[k]) && allocated(arr(ret[k]))
//@   invariant L0: [C16:inv] forall k PackageURL, j int :: (k in ret) && 0 <= j && j < len(ret[k]) ==> ret[k][j] != nil && (ret[k][j] in elems(nl.Nodes)) && k != "" && purlOf(ret[k][j]) == k

// ---- traversal ----

// NodeGraph: shape of the result, the root-boundary rule and forward closure of the node set
// (the upper half of reachability: every non-root successor inside the list of a returned node
// with a non-empty identifier is returned; exact reachability needs a transitive closure and is not stated)
//@ func NodeList.NodeGraph
//@   props C11, C15
//@   assigns \nothing
//@   requires [C15:pre] validNL(nl)
//@   ensures [C15:graph:absent] (result == nil) <==> !(id in fieldset(nl.Nodes, Id))
//@   ensures [C15:graph:shape] result != nil ==> fresh(result) && validNL(result) && closedEdges(result) && normalisedNL(result)
//@   ensures [C15:graph:root] result != nil ==> len(result.RootElements) == 1 && result.RootElements[0] == id && (id in fieldset(result.Nodes, Id))
//@   ensures [C15:graph:subset] result != nil ==> (forall a int :: 0 <= a && a < len(result.Nodes) ==> (result.Nodes[a] in elems(nl.Nodes)))
//@   ensures [C15:graph:unique] result != nil ==> (forall a int, b int :: 0 <= a && a < b && b < len(result.Nodes) ==> result.Nodes[a].Id != result.Nodes[b].Id)
//@   ensures [C15:graph:rootRule] result != nil ==> (forall a int :: 0 <= a && a < len(result.Nodes) ==> result.Nodes[a].Id == id || !(result.Nodes[a].Id in elems(nl.RootElements)))
//@   ensures [C15:graph:closed] result != nil ==> (forall a int, r *Edge, j int :: 0 <= a && a < len(result.Nodes) && (r in elems(nl.Edges)) && r.From == result.Nodes[a].Id && r.From != "" && 0 <= j && j < len(r.To) && (r.To[j] in fieldset(nl.Nodes, Id)) && !(r.To[j] in elems(nl.RootElements)) ==> (r.To[j] in fieldset(result.Nodes, Id)))
//@   invariant L0: [C15:inv] nodelist != nil && fresh(nodelist) && len(nodelist.RootElements) == 0 && !(nil in elems(nodelist.Edges))
//@   invariant L0: [C15:inv] graphIndex != nil && (forall k string :: (k in graphIndex) ==> graphIndex[k] != nil && graphIndex[k].Id == k && (graphIndex[k] in elems(nl.Nodes)))
//@   invariant L0: [C15:inv] edgeIdx != nil && (forall f string, t Edge_Type, a int :: (f in edgeIdx) && (t in edgeIdx[f]) && 0 <= a && a < len(edgeIdx[f][t]) ==> edgeIdx[f][t][a] != nil)
//@   invariant L0: [C15:inv] (forall x string :: (x in fieldset(nodelist.Nodes, Id)) <==> (x in _V)) && (forall k string :: (k in _V) ==> (k in graphIndex)) && (forall a int :: 0 <= a && a < len(nodelist.Nodes) ==> nodelist.Nodes[a] != nil && (nodelist.Nodes[a].Id in _V) && (nodelist.Nodes[a] in elems(nl.Nodes))) && (forall a int, b int :: 0 <= a && a < b && b < len(nodelist.Nodes) ==> nodelist.Nodes[a].Id != nodelist.Nodes[b].Id) && !(nil in elems(nodelist.Nodes))
//@   invariant L1: [C15:inv] nodelist != nil && fresh(nodelist) && len(nodelist.RootElements) == 0 && !(nil in elems(nodelist.Edges))
//@   invariant L1: [C15:inv] graphIndex != nil && (forall k string :: (k in graphIndex) ==> graphIndex[k] != nil && graphIndex[k].Id == k && (graphIndex[k] in elems(nl.Nodes)))
//@   invariant L1: [C15:inv] edgeIdx != nil && (forall f string, t Edge_Type, a int :: (f in edgeIdx) && (t in edgeIdx[f]) && 0 <= a && a < len(edgeIdx[f][t]) ==> edgeIdx[f][t][a] != nil)
//@   invariant L1: [C15:inv] (forall x string :: (x in fieldset(nodelist.Nodes, Id)) <==> (x in _V1)) && (forall k string :: (k in _V1) ==> (k in graphIndex)) && (forall a int :: 0 <= a && a < len(nodelist.Nodes) ==> nodelist.Nodes[a] != nil && (nodelist.Nodes[a].Id in _V1) && (nodelist.Nodes[a] in elems(nl.Nodes))) && (forall a int, b int :: 0 <= a && a < b && b < len(nodelist.Nodes) ==> nodelist.Nodes[a].Id != nodelist.Nodes[b].Id) && !(nil in elems(nodelist.Nodes))

//@ func NodeList.NodeSiblings
//@   props C11, C15
//@   assigns \nothing
//@   requires validNL(nl)
//@   ensures [C15:siblings:nil] (id == "") <==> (result == nil)
//@   ensures [C15:siblings:shape] result != nil ==> fresh(result) && validNL(result) && closedEdges(result) && normalisedNL(result)
//@   ensures [C15:siblings:root] result != nil && (id in fieldset(nl.Nodes, Id)) ==> len(result.RootElements) == 1 && result.RootElements[0] == id && (id in fieldset(result.Nodes, Id))
//@   ensures [C15:siblings:absent] result != nil && !(id in fieldset(nl.Nodes, Id)) ==> len(result.Nodes) == 0 && len(result.RootElements) == 0 && len(result.Edges) == 0
//@   ensures [C15:siblings:complete] result != nil && (id in fieldset(nl.Nodes, Id)) ==> (forall r *Edge, j int :: (r in elems(nl.Edges)) && r.From == id && 0 <= j && j < len(r.To) && (r.To[j] in fieldset(nl.Nodes, Id)) ==> (r.To[j] in fieldset(result.Nodes, Id)))
//@   ensures [C15:siblings:subset] result != nil ==> (forall a int :: 0 <= a && a < len(result.Nodes) ==> (result.Nodes[a] in elems(nl.Nodes)))
//@   ensures [C15:siblings:unique] result != nil ==> (forall a int, b int :: 0 <= a && a < b && b < len(result.Nodes) ==> result.Nodes[a].Id != result.Nodes[b].Id)
//@   invariant L0: [C15:inv] (forall k string :: (k in ni) ==> ni[k] != nil && ni[k].Id == k && (ni[k] in elems(nl.Nodes))) && (id in ni) && ni != nil && fresh(ni)
//@   invariant L0: [C15:inv] !(nil in elems(nodelist.Edges)) && len(nodelist.Nodes) == 0 && len(nodelist.RootElements) == 1 && nodelist.RootElements[0] == id && allocated(arr(nodelist.RootElements))
//@   invariant L0: [C15:inv] forall r *Edge, j int :: (r in elemsn(nl.Edges, _i)) && r.From == id && 0 <= j && j < len(r.To) && (r.To[j] in fieldset(nl.Nodes, Id)) ==> (r.To[j] in ni)
//@   invariant L1: [C15:inv] (forall k string :: (k in ni) ==> ni[k] != nil && ni[k].Id == k && (ni[k] in elems(nl.Nodes))) && (id in ni) && ni != nil && fresh(ni)
//@   invariant L1: [C15:inv] !(nil in elems(nodelist.Edges)) && len(nodelist.Nodes) == 0 && len(nodelist.RootElements) == 1 && nodelist.RootElements[0] == id && allocated(arr(nodelist.RootElements))
//@   invariant L1: [C15:inv] forall r *Edge, j int :: (r in elemsn(nl.Edges, _i1)) && r.From == id && 0 <= j && j < len(r.To) && (r.To[j] in fieldset(nl.Nodes, Id)) ==> (r.To[j] in ni)
//@   invariant L1: [C15:inv] r != nil && r.From == id && (forall j int :: 0 <= j && j < _i && (r.To[j] in fieldset(nl.Nodes, Id)) ==> (r.To[j] in ni))
//@   invariant L2: [C15:inv] (forall k string :: (k in ni) ==> ni[k] != nil && ni[k].Id == k && (ni[k] in elems(nl.Nodes))) && (id in ni) && ni != nil && fresh(ni)
//@   invariant L2: [C15:inv] !(nil in elems(nodelist.Edges)) && !(nil in elems(nodelist.Nodes)) && len(nodelist.RootElements) == 1 && nodelist.RootElements[0] == id
//@   invariant L2: [C15:inv] forall r *Edge, j int :: (r in elems(nl.Edges)) && r.From == id && 0 <= j && j < len(r.To) && (r.To[j] in fieldset(nl.Nodes, Id)) ==> (r.To[j] in ni)
//@   invariant L2: [C15:inv] (forall x string :: (x in fieldset(nodelist.Nodes, Id)) <==> (x in _V)) && (forall k string :: (k in _V) ==> (k in ni))
//@   invariant L2: [C15:inv] (forall a int :: 0 <= a && a < len(nodelist.Nodes) ==> (nodelist.Nodes[a].Id in _V) && (nodelist.Nodes[a] in elems(nl.Nodes))) && (forall a int, b int :: 0 <= a && a < b && b < len(nodelist.Nodes) ==> nodelist.Nodes[a].Id != nodelist.Nodes[b].Id)

//@ func NodeList.NodeDescendants
//@   props C11, C15
//@   assigns \nothing
//@   requires validNL(nl)
//@   ensures [C15:descendants:shape] result != nil && validNL(result) && closedEdges(result) && normalisedNL(result)
//@   ensures [C15:descendants:rootsClosed] closedRoots(result)
//@   ensures [C15:descendants:root] (id in fieldset(nl.Nodes, Id)) && maxDepth >= 1 ==> len(result.RootElements) == 1 && result.RootElements[0] == id && (id in fieldset(result.Nodes, Id))
//@   ensures [C15:descendants:absent] !(id in fieldset(nl.Nodes, Id)) ==> len(result.Nodes) == 0 && len(result.RootElements) == 0 && len(result.Edges) == 0
//@   ensures [C15:descendants:subset] forall a int :: 0 <= a && a < len(result.Nodes) ==> (result.Nodes[a] in elems(nl.Nodes))
//@   ensures [C15:descendants:unique] forall a int, b int :: 0 <= a && a < b && b < len(result.Nodes) ==> result.Nodes[a].Id != result.Nodes[b].Id
//@   invariant L0: [C15:inv] startNode != nil && startNode.Id == id && (startNode in elems(nl.Nodes)) && len(nl2.Nodes) == 0 && len(nl2.RootElements) == 1 && nl2.RootElements[0] == id && nl2.Edges == nl.Edges
//@   invariant L0: [C15:inv] siblings != nil && fresh(siblings)
//@   invariant L0: [C15:inv] forall k string :: (k in siblings) ==> siblings[k] != nil && siblings[k].Id == k && (siblings[k] in elems(nl.Nodes))
//@   invariant L0: [C15:inv] forall a int :: 0 <= a && a < len(newLoopNodes) ==> newLoopNodes[a] != nil && (newLoopNodes[a] in elems(nl.Nodes))
//@   invariant L1: [C15:inv] startNode != nil && startNode.Id == id && (startNode in elems(nl.Nodes)) && len(nl2.Nodes) == 0 && len(nl2.RootElements) == 1 && nl2.RootElements[0] == id && nl2.Edges == nl.Edges
//@   invariant L1: [C15:inv] siblings != nil && fresh(siblings)
//@   invariant L1: [C15:inv] forall k string :: (k in siblings) ==> siblings[k] != nil && siblings[k].Id == k && (siblings[k] in elems(nl.Nodes))
//@   invariant L1: [C15:inv] forall a int :: 0 <= a && a < len(newLoopNodes) ==> newLoopNodes[a] != nil && (newLoopNodes[a] in elems(nl.Nodes))
//@   invariant L1: [C15:inv] forall a int :: 0 <= a && a < len(loopNodes) ==> loopNodes[a] != nil && (loopNodes[a] in elems(nl.Nodes))
//@   invariant L2: [C15:inv] startNode != nil && startNode.Id == id && (startNode in elems(nl.Nodes)) && len(nl2.Nodes) == 0 && len(nl2.RootElements) == 1 && nl2.RootElements[0] == id && nl2.Edges == nl.Edges
//@   invariant L2: [C15:inv] siblings != nil && fresh(siblings)
//@   invariant L2: [C15:inv] forall k string :: (k in siblings) ==> siblings[k] != nil && siblings[k].Id == k && (siblings[k] in elems(nl.Nodes))
//@   invariant L2: [C15:inv] forall a int :: 0 <= a && a < len(newLoopNodes) ==> newLoopNodes[a] != nil && (newLoopNodes[a] in elems(nl.Nodes))
//@   invariant L2: [C15:inv] forall a int :: 0 <= a && a < len(loopNodes) ==> loopNodes[a] != nil && (loopNodes[a] in elems(nl.Nodes))
//@   invariant L3: [C15:inv] startNode != nil && startNode.Id == id && (startNode in elems(nl.Nodes)) && len(nl2.Nodes) == 0 && len(nl2.RootElements) == 1 && nl2.RootElements[0] == id && nl2.Edges == nl.Edges
//@   invariant L3: [C15:inv] siblings != nil && fresh(siblings)
//@   invariant L3: [C15:inv] forall k string :: (k in siblings) ==> siblings[k] != nil && siblings[k].Id == k && (siblings[k] in elems(nl.Nodes))
//@   invariant L3: [C15:inv] forall a int :: 0 <= a && a < len(newLoopNodes) ==> newLoopNodes[a] != nil && (newLoopNodes[a] in elems(nl.Nodes))
//@   invariant L3: [C15:inv] forall a int :: 0 <= a && a < len(loopNodes) ==> loopNodes[a] != nil && (loopNodes[a] in elems(nl.Nodes))
//@   invariant L4: [C15:inv] startNode != nil && startNode.Id == id && (startNode in elems(nl.Nodes)) && len(nl2.Nodes) == 0 && len(nl2.RootElements) == 1 && nl2.RootElements[0] == id && nl2.Edges == nl.Edges
//@   invariant L4: [C15:inv] siblings != nil && fresh(siblings)
//@   invariant L4: [C15:inv] forall k string :: (k in siblings) ==> siblings[k] != nil && siblings[k].Id == k && (siblings[k] in elems(nl.Nodes))
//@   invariant L4: [C15:inv] forall a int :: 0 <= a && a < len(newLoopNodes) ==> newLoopNodes[a] != nil && (newLoopNodes[a] in elems(nl.Nodes))
//@   invariant L4: [C15:inv] forall a int :: 0 <= a && a < len(loopNodes) ==> loopNodes[a] != nil && (loopNodes[a] in elems(nl.Nodes))
//@   ensures [C15:descendants:levelOne] maxDepth == 1 ==> (forall a int :: 0 <= a && a < len(result.Nodes) ==> result.Nodes[a].Id == id)
//@   invariant L0: [C15:inv] 0 <= i && (maxDepth >= 1 ==> i <= maxDepth) && (i <= 1 ==> (forall k string :: (k in siblings) ==> k == id))
//@   invariant L1: [C15:inv] i == 0 ==> len(loopNodes) == 1 && (forall k string :: (k in siblings) ==> k == id)
//@   invariant L2: [C15:inv] i == 0 ==> (forall k string :: (k in siblings) ==> k == id)
//@   invariant L3: [C15:inv] i == 0 ==> (forall k string :: (k in siblings) ==> k == id)
//@   invariant L4: [C15:inv] i == 0 ==> (forall k string :: (k in siblings) ==> k == id)
//@   invariant L5: [C15:inv] maxDepth == 1 ==> (forall k string :: (k in siblings) ==> k == id)
//@   invariant L0: [C15:inv] i >= 1 ==> (id in siblings)
//@   invariant L1: [C15:inv] (i >= 1 || _i >= 1) ==> (id in siblings)
//@   invariant L1: [C15:inv] (i == 0 && _i == 0) ==> len(loopNodes) == 1 && loopNodes[0] == startNode
//@   invariant L2: [C15:inv] id in siblings
//@   invariant L3: [C15:inv] id in siblings
//@   invariant L4: [C15:inv] id in siblings
//@   invariant L5: [C15:inv] siblings != nil && fresh(siblings)
//@   invariant L5: [C15:inv] forall k string :: (k in siblings) ==> siblings[k] != nil && siblings[k].Id == k && (siblings[k] in elems(nl.Nodes))
//@   invariant L5: [C15:inv] startNode != nil && startNode.Id == id && len(nl2.RootElements) == 1 && nl2.RootElements[0] == id && nl2.Edges == nl.Edges && (maxDepth >= 1 ==> (id in siblings))
//@   invariant L5: [C15:inv] (forall x string :: (x in fieldset(nl2.Nodes, Id)) <==> (x in _V)) && (forall k string :: (k in _V) ==> (k in siblings))
//@   invariant L5: [C15:inv] forall a int :: 0 <= a && a < len(nl2.Nodes) ==> nl2.Nodes[a] != nil && (nl2.Nodes[a].Id in _V) && (nl2.Nodes[a] in elems(nl.Nodes))
//@   invariant L5: [C15:inv] forall a int, b int :: 0 <= a && a < b && b < len(nl2.Nodes) ==> nl2.Nodes[a].Id != nl2.Nodes[b].Id
//@   invariant L5: [C15:inv] !(nil in elems(nl2.Nodes))

// forward closure at k: every target of an edge leaving k that names a node of the list and is not a
// boundary is in the index (closedAt: boundaries given as the index map; closedAtR: as the root list)
//@ pred closedAt(nl *NodeList, s nodeIndex, b rootElementsIndex, k string) = forall r *Edge, j int :: (r in elems(nl.Edges)) && r.From == k && 0 <= j && j < len(r.To) && (r.To[j] in fieldset(nl.Nodes, Id)) && !(r.To[j] in b) ==> (r.To[j] in s)
//@ pred closedAtR(nl *NodeList, s nodeIndex, k string) = forall r *Edge, j int :: (r in elems(nl.Edges)) && r.From == k && 0 <= j && j < len(r.To) && (r.To[j] in fieldset(nl.Nodes, Id)) && !(r.To[j] in elems(nl.RootElements)) ==> (r.To[j] in s)

//@ func NodeList.indexConnectedNodes
//@   props C11, C15
//@   assigns \nothing
//@   requires validNL(nl)
//@   ensures [C15:connected:start] (id in result) <==> (id in fieldset(nl.Nodes, Id))
//@   ensures [C15:connected:index] result != nil && fresh(result) && (forall k string :: (k in result) ==> result[k] != nil && result[k].Id == k && (result[k] in elems(nl.Nodes)))
//@   ensures [C15:connected:rootRule] forall k string :: (k in result) ==> k == id || !(k in elems(nl.RootElements))
//@   ensures [C15:connected:closed] forall k string :: (k in result) && k != "" ==> closedAtR(nl, result, k)

//@ func NodeList.connectedIndexRecursion
//@   props C11, C15
//@   requires boundaries != nil && connectedNodes != nil
//@   requires [C15:pre] validNL(nl) && *connectedNodes != nil && (forall k string :: (k in (*connectedNodes)) ==> (*connectedNodes)[k] != nil && (*connectedNodes)[k].Id == k && ((*connectedNodes)[k] in elems(nl.Nodes)))
//@   assigns connectedNodes.*, (*connectedNodes)[*]
//@   ensures [C15:connected:monotone] forall k string :: (k in old(keys(*connectedNodes))) ==> (k in *connectedNodes)
//@   invariant L0: [C15:inv] forall k string :: (k in old(keys(*connectedNodes))) ==> (k in *connectedNodes)
//@   ensures [C15:connected:index] *connectedNodes == old(*connectedNodes) && (forall k string :: (k in (*connectedNodes)) ==> (*connectedNodes)[k] != nil && (*connectedNodes)[k].Id == k && ((*connectedNodes)[k] in elems(nl.Nodes)))
//@   invariant L0: [C15:inv] *connectedNodes == old(*connectedNodes) && (forall k string :: (k in (*connectedNodes)) ==> (*connectedNodes)[k] != nil && (*connectedNodes)[k].Id == k && ((*connectedNodes)[k] in elems(nl.Nodes)))
//@   invariant L0: [C15:inv] siblings != nil && (forall a int :: 0 <= a && a < len(siblings.Nodes) ==> siblings.Nodes[a] != nil && (siblings.Nodes[a] in elems(nl.Nodes)))
//@   ensures [C15:connected:boundary] forall k string :: (k in *connectedNodes) && !(k in old(keys(*connectedNodes))) ==> !(k in *boundaries)
//@   invariant L0: [C15:inv] forall k string :: (k in *connectedNodes) && !(k in old(keys(*connectedNodes))) ==> !(k in *boundaries)
//@   ensures [C15:connected:closed] ((id in fieldset(nl.Nodes, Id)) && id != "" ==> closedAt(nl, *connectedNodes, *boundaries, id)) && (forall k string :: (k in *connectedNodes) && !(k in old(keys(*connectedNodes))) && k != "" ==> closedAt(nl, *connectedNodes, *boundaries, k))
//@   invariant L0: [C15:inv] forall k string :: (k in *connectedNodes) && !(k in old(keys(*connectedNodes))) && k != "" ==> closedAt(nl, *connectedNodes, *boundaries, k)
//@   invariant L0: [C15:inv] forall x string :: (x in fieldsetn(siblings.Nodes, Id, _i)) ==> (x in *connectedNodes) || (x in *boundaries)
//@   invariant L0: [C15:inv] (id in fieldset(nl.Nodes, Id)) ==> (forall r *Edge, j int :: (r in elems(nl.Edges)) && r.From == id && 0 <= j && j < len(r.To) && (r.To[j] in fieldset(nl.Nodes, Id)) ==> (r.To[j] in fieldset(siblings.Nodes, Id)))

// ---------------------------------------------------------------------------
// C01: mutually inverse enum tables (SPDX 2.3)
// ---------------------------------------------------------------------------

//@ table edgeTypeSPDX2RoundTrip [C01]: forall t Edge_Type :: 1 <= t && t <= 44 ==> EdgeTypeFromSPDX2(Edge_Type.ToSPDX2(t)) == t
//@ table hashAlgoSPDXNamed [C01]: forall h HashAlgorithm :: 1 <= h && h <= 17 && h != 13 ==> HashAlgorithm.ToSPDX(h) != ""
//@ table hashAlgoSPDXRoundTrip [C01]: forall h HashAlgorithm :: 1 <= h && h <= 17 && HashAlgorithm.ToSPDX(h) != "" ==> HashAlgorithmFromSPDX(HashAlgorithm.ToSPDX(h)) == h
//@ table identifierSPDXType [C01]: forall i SoftwareIdentifierType :: 1 <= i && i <= 4 ==> SoftwareIdentifierTypeFromSPDXExtRefType(SoftwareIdentifierType.ToSPDX2Type(i)) == i

// ---------------------------------------------------------------------------
// C09: attribute precedence (generated per field from the Node struct of the
// current working tree; Id is the identity of a shared node and is exempt)
// ---------------------------------------------------------------------------

//@ func Node.Update
//@   props C09, C10
//@   requires n2 != nil
//@   assigns n.*
//@   ensures-each Node[string] except Id: [C09:update:$f] n.$f == old(n2.$f != "" ? n2.$f : n.$f)
//@   ensures-each Node[enum]: [C09:update:$f] n.$f == old(n2.$f != 0 ? n2.$f : n.$f)
//@   ensures-each Node[slice,ptrslice,map]: [C09:update:$f] n.$f == old(len(n2.$f) > 0 ? n2.$f : n.$f)
//@   ensures-each Node[ptr]: [C09:update:$f] n.$f == old(n2.$f != nil ? n2.$f : n.$f)
//@   ensures [C09:update:Id] n.Id == old(n.Id)

//@ func Node.Augment
//@   props C09
//@   requires n2 != nil
//@   assigns n.*
//@   ensures-each Node[string] except Id: [C09:augment:$f] n.$f == old(n.$f != "" ? n.$f : n2.$f)
//@   ensures-each Node[enum]: [C09:augment:$f] n.$f == old(n.$f != 0 ? n.$f : n2.$f)
//@   ensures-each Node[slice,ptrslice,map]: [C09:augment:$f] n.$f == old(len(n.$f) > 0 ? n.$f : (len(n2.$f) > 0 ? n2.$f : n.$f))
//@   ensures-each Node[ptr]: [C09:augment:$f] n.$f == old(n.$f != nil ? n.$f : n2.$f)
//@   ensures [C09:augment:Id] n.Id == old(n.Id)

// ---------------------------------------------------------------------------
// C14: node diff
// ---------------------------------------------------------------------------

// elems(s) is the set of elements of slice s, elemsn(s, n) of its first n
// elements (ghost set view, see DESIGN.md)

//@ func contains
//@   props C14
//@   assigns \nothing
//@   ensures [C14:contains] result <==> (e in elems(s))
//@   invariant L0: !(e in elemsn(s, _i))

//@ func diffSlice
//@   props C14
//@   assigns \nothing
//@   ensures [C14:diffSlice:added] forall x T :: (x in elems(added)) <==> ((x in elems(arr2)) && !(x in elems(arr1)))
//@   ensures [C14:diffSlice:removed] forall x T :: (x in elems(removed)) <==> ((x in elems(arr1)) && !(x in elems(arr2)))
//@   ensures [C14:diffSlice:count] count == (len(added) + len(removed) > 0 ? 1 : 0)
//@   ensures [C14:diffSlice:countIff] count == (sameElems(arr1, arr2) ? 0 : 1)
//@   ensures [C14:diffSlice:fresh] fresh(added) && fresh(removed)
//@   invariant L0: forall x T :: (x in elems(added)) <==> ((x in elemsn(arr2, _i)) && !(x in elems(arr1)))
//@   invariant L1: (forall x T :: (x in elems(added)) <==> ((x in elems(arr2)) && !(x in elems(arr1)))) && (forall y T :: (y in elems(removed)) <==> ((y in elemsn(arr1, _i)) && !(y in elems(arr2))))

//@ func diffMap
//@   props C14
//@   assigns \nothing
//@   ensures [C14:diffMap:added] forall k K :: (k in added) <==> ((k in map2) && !((k in map1) && map1[k] == map2[k]))
//@   ensures [C14:diffMap:addedValues] forall k K :: (k in added) ==> added[k] == map2[k]
//@   ensures [C14:diffMap:removed] forall k K :: (k in removed) <==> ((k in map1) && !(k in map2))
//@   ensures [C14:diffMap:removedValues] forall k K :: (k in removed) ==> removed[k] == map1[k]
//@   ensures [C14:diffMap:count] count == (len(added) + len(removed) > 0 ? 1 : 0)
//@   ensures [C14:diffMap:countIff] count == (sameMap(map1, map2) ? 0 : 1)
//@   ensures [C14:diffMap:fresh] fresh(added) && fresh(removed) && added != removed
//@   invariant L0: added != nil && removed != nil && added != removed && added != map1 && added != map2 && fresh(added) && (forall k K :: (k in _V) ==> (k in map2)) && (forall k K :: (k in added) <==> ((k in _V) && !((k in map1) && map1[k] == map2[k]))) && (forall k K :: (k in added) ==> added[k] == map2[k])
//@   invariant L1: added != nil && removed != nil && added != removed && removed != map1 && removed != map2 && fresh(removed) && fresh(added) && (forall k K :: (k in _V) ==> (k in map1)) && (forall k K :: (k in added) <==> ((k in map2) && !((k in map1) && map1[k] == map2[k]))) && (forall k K :: (k in added) ==> added[k] == map2[k]) && (forall k K :: (k in removed) <==> ((k in _V) && !(k in map2))) && (forall k K :: (k in removed) ==> removed[k] == map1[k])

//@ func diffDates
//@   props C14
//@   assigns \nothing
//@   ensures [C14:diffDates:count] count == ((((dt1 == nil) != (dt2 == nil)) || (dt1 != nil && dt2 != nil && time.Time.Unix(timestamppb.Timestamp.AsTime(dt1)) != time.Time.Unix(timestamppb.Timestamp.AsTime(dt2)))) ? 1 : 0)
//@   ensures [C14:diffDates:added] added == (count == 1 && dt2 != nil ? dt2 : nil)
//@   ensures [C14:diffDates:removed] removed == (count == 1 && dt2 == nil ? dt1 : nil)
//@   ensures [C14:diffDates:countIff] count == (sameSecond(dt1, dt2) ? 0 : 1)

// element identity of nested messages is their flattened string (pure methods)
//@ fieldset-of sbom.Node: Id
//@ imageset-of sbom.Person: flatString
//@ imageset-of sbom.ExternalReference: flatString

//@ func diffList
//@   props C14
//@   assigns \nothing
//@   ensures [C14:diffList:added] forall x string :: (x in imageset(added, flatString)) <==> ((x in imageset(list2, flatString)) && !(x in imageset(list1, flatString)))
//@   ensures [C14:diffList:removed] forall x string :: (x in imageset(removed, flatString)) <==> ((x in imageset(list1, flatString)) && !(x in imageset(list2, flatString)))
//@   ensures [C14:diffList:count] count == (len(added) + len(removed) > 0 ? 1 : 0)
//@   ensures [C14:diffList:countIff] count == (sameImages(list1, list2, flatString) ? 0 : 1)
//@   ensures [C14:diffList:fresh] fresh(added) && fresh(removed)
//@   invariant L0: forall x string :: (x in idx1) <==> (x in imagesetn(list1, flatString, _i))
//@   invariant L1: (forall x string :: (x in idx1) <==> (x in imageset(list1, flatString))) && (forall y string :: (y in idx2) <==> (y in imagesetn(list2, flatString, _i)))
//@   invariant L2: (forall x string :: (x in idx1) <==> (x in imageset(list1, flatString))) && (forall y string :: (y in idx2) <==> (y in imageset(list2, flatString))) && (forall z string :: (z in imageset(added, flatString)) <==> ((z in imagesetn(list2, flatString, _i)) && !(z in imageset(list1, flatString))))
//@   invariant L3: (forall y string :: (y in idx2) <==> (y in imageset(list2, flatString))) && (forall z string :: (z in imageset(added, flatString)) <==> ((z in imageset(list2, flatString)) && !(z in imageset(list1, flatString)))) && (forall w string :: (w in imageset(removed, flatString)) <==> ((w in imagesetn(list1, flatString, _i)) && !(w in imageset(list2, flatString))))

// two dates are equal "to the second"
//@ pred sameSecond(d1 *timestamppb.Timestamp, d2 *timestamppb.Timestamp) = (d1 == nil && d2 == nil) || (d1 != nil && d2 != nil && time.Time.Unix(timestamppb.Timestamp.AsTime(d1)) == time.Time.Unix(timestamppb.Timestamp.AsTime(d2)))

// Node.Diff: per field (generated from the Node struct of the working tree)
//   differs / count:  the difference count is the number of differing attributes and the result is nil iff it is 0
//   rebuild:          applying (Added, Removed) to the first node's attribute yields the second node's attribute
//@ func Node.Diff
//@   props C14
//@   requires n2 != nil
//@   assigns \nothing
//@   ensures-agg Node: [C14:diff:nilIffEqual] (result == nil) <==> ($AND[string,enum]{n.$f == n2.$f} && $AND[slice]{sameElems(n.$f, n2.$f)} && $AND[ptrslice]{sameImages(n.$f, n2.$f, flatString)} && $AND[map]{sameMap(n.$f, n2.$f)} && $AND[ptr]{sameSecond(n.$f, n2.$f)})
//@   ensures-agg Node: [C14:diff:count] result != nil ==> result.DiffCount == $SUM[string,enum]{n.$f == n2.$f ? 0 : 1} + $SUM[slice]{sameElems(n.$f, n2.$f) ? 0 : 1} + $SUM[ptrslice]{sameImages(n.$f, n2.$f, flatString) ? 0 : 1} + $SUM[map]{sameMap(n.$f, n2.$f) ? 0 : 1} + $SUM[ptr]{sameSecond(n.$f, n2.$f) ? 0 : 1}
//@   ensures [C14:diff:shape] result != nil ==> result.Added != nil && result.Removed != nil
//@   ensures-each Node[string]: [C14:rebuild:$f] result != nil ==> (result.Removed.$f != "" ? "" : (result.Added.$f != "" ? result.Added.$f : n.$f)) == n2.$f
//@   ensures-each Node[enum]: [C14:rebuild:$f] result != nil ==> (result.Removed.$f != 0 ? 0 : (result.Added.$f != 0 ? result.Added.$f : n.$f)) == n2.$f
//@   ensures-each Node[slice]: [C14:rebuild:$f] result != nil ==> rebuildsElems(n.$f, result.Added.$f, result.Removed.$f, n2.$f)
//@   ensures-each Node[ptrslice]: [C14:rebuild:$f] result != nil ==> rebuildsImages(n.$f, result.Added.$f, result.Removed.$f, n2.$f, flatString)
//@   ensures-each Node[map]: [C14:rebuild:$f] result != nil ==> rebuildsMap(n.$f, result.Added.$f, result.Removed.$f, n2.$f)
//@   ensures-each Node[ptr]: [C14:rebuild:$f] result != nil ==> sameSecond(result.Removed.$f != nil ? nil : (result.Added.$f != nil ? result.Added.$f : n.$f), n2.$f)

//@ func diff[string]
//@   props C14
//@   assigns \nothing
//@   ensures [C14:diff:scalar] added == (v1 == v2 || v2 == "" ? "" : v2) && removed == (v1 != v2 && v2 == "" ? v1 : "") && count == (v1 == v2 ? 0 : 1)

// ---------------------------------------------------------------------------
// C04 / C05 / C08: list-editing operations used by the parsers (safety part)
// ---------------------------------------------------------------------------

// two node lists whose slices do not share backing arrays (operands are separated)
//@ pred separatedNL(a *NodeList, b *NodeList) = a != b && (arr(a.Nodes) == nil || arr(a.Nodes) != arr(b.Nodes)) && (arr(a.Edges) == nil || arr(a.Edges) != arr(b.Edges)) && (arr(a.RootElements) == nil || arr(a.RootElements) != arr(b.RootElements))

// identifiers identify nodes: two entries of the list with the same identifier are the same node
// (idowner is an uninterpreted ghost function: the precondition has a model exactly when that holds)
//@ pred uniqueById(nl *NodeList) = forall p *Node :: (p in elems(nl.Nodes)) ==> idowner(nl, p.Id) == p

// a node list without nil entries
//@ pred validNL(nl *NodeList) = nl != nil && !(nil in elems(nl.Nodes)) && !(nil in elems(nl.Edges))

//@ func NodeList.cleanEdges
//@   props C04, C08, C12
//@   requires validNL(nl)
//@   assigns nl.Edges
//@   owns
//@   ensures [validNL] validNL(nl)
//@   ensures [C08:cleanEdges:freshEdges] fresh(arr(nl.Edges)) && (forall e *Edge :: (e in elems(nl.Edges)) ==> fresh(e) && (arr(e.To) == nil || fresh(arr(e.To))))
//@   ensures [C08:cleanEdges:others] nl.Nodes == old(nl.Nodes) && nl.RootElements == old(nl.RootElements)
//@   ensures [C08:cleanEdges:closedFrom] forall e *Edge :: (e in elems(nl.Edges)) ==> (e.From in fieldset(nl.Nodes, Id)) && len(e.To) > 0
//@   ensures [C08:cleanEdges:oneEdgePerSourceAndType] forall i int, j int :: 0 <= i && i < j && j < len(nl.Edges) ==> !(nl.Edges[i].From == nl.Edges[j].From && nl.Edges[i].Type == nl.Edges[j].Type)
//@   invariant L0: [C08:inv] (forall k string :: (k in seenCache) ==> k == (seenCache[k].From + "+++" + Edge_Type.String(seenCache[k].Type)))
//@   invariant L1: [C08:inv] (forall k string :: (k in seenCache) ==> k == (seenCache[k].From + "+++" + Edge_Type.String(seenCache[k].Type)))
//@   invariant L2: [C08:inv] (forall k string :: (k in seenCache) ==> k == (seenCache[k].From + "+++" + Edge_Type.String(seenCache[k].Type)))
//@   invariant L3: [C08:inv] (forall k string :: (k in seenCache) ==> k == (seenCache[k].From + "+++" + Edge_Type.String(seenCache[k].Type)))
//@   invariant L2: [C08:inv] forall i int :: 0 <= i && i < len(newEdges) ==> ((newEdges[i].From + "+++" + Edge_Type.String(newEdges[i].Type)) in _V)
//@   invariant L2: [C08:inv] forall i int, j int :: 0 <= i && i < j && j < len(newEdges) ==> (newEdges[i].From + "+++" + Edge_Type.String(newEdges[i].Type)) != (newEdges[j].From + "+++" + Edge_Type.String(newEdges[j].Type))
//@   invariant L3: [C08:inv] forall i int :: 0 <= i && i < len(newEdges) ==> ((newEdges[i].From + "+++" + Edge_Type.String(newEdges[i].Type)) in _V1) && (newEdges[i].From + "+++" + Edge_Type.String(newEdges[i].Type)) != f
//@   invariant L3: [C08:inv] forall i int, j int :: 0 <= i && i < j && j < len(newEdges) ==> (newEdges[i].From + "+++" + Edge_Type.String(newEdges[i].Type)) != (newEdges[j].From + "+++" + Edge_Type.String(newEdges[j].Type))
//@   ensures [C08:cleanEdges:noRepeatedTargets] forall i int :: 0 <= i && i < len(nl.Edges) ==> (forall a int, b int :: 0 <= a && a < b && b < len(nl.Edges[i].To) ==> nl.Edges[i].To[a] != nl.Edges[i].To[b])
//@   invariant L0: [C08:inv] (forall k1 string, k2 string :: (k1 in seenCache) && (k2 in seenCache) && k1 != k2 ==> arr(seenCache[k1].To) != arr(seenCache[k2].To))
//@   invariant L1: [C08:inv] (forall k1 string, k2 string :: (k1 in seenCache) && (k2 in seenCache) && k1 != k2 ==> arr(seenCache[k1].To) != arr(seenCache[k2].To))
//@   invariant L2: [C08:inv] (forall k1 string, k2 string :: (k1 in seenCache) && (k2 in seenCache) && k1 != k2 ==> arr(seenCache[k1].To) != arr(seenCache[k2].To))
//@   invariant L3: [C08:inv] (forall k1 string, k2 string :: (k1 in seenCache) && (k2 in seenCache) && k1 != k2 ==> arr(seenCache[k1].To) != arr(seenCache[k2].To))
//@   invariant L2: [C08:inv] (forall i int :: 0 <= i && i < len(newEdges) ==> ((newEdges[i].From + "+++" + Edge_Type.String(newEdges[i].Type)) in seenCache) && seenCache[(newEdges[i].From + "+++" + Edge_Type.String(newEdges[i].Type))] == newEdges[i])
//@   invariant L3: [C08:inv] (forall i int :: 0 <= i && i < len(newEdges) ==> ((newEdges[i].From + "+++" + Edge_Type.String(newEdges[i].Type)) in seenCache) && seenCache[(newEdges[i].From + "+++" + Edge_Type.String(newEdges[i].Type))] == newEdges[i])
//@   invariant L2: [C08:inv] forall k string :: (k in seenCache) && !(k in _V) ==> len(seenCache[k].To) == 0
//@   invariant L2: [C08:inv] forall k string :: (k in seenCache) && (k in _V) ==> (forall a int, b int :: 0 <= a && a < b && b < len(seenCache[k].To) ==> seenCache[k].To[a] != seenCache[k].To[b])
//@   invariant L3: [C08:inv] forall k string :: (k in seenCache) && !(k in _V1) ==> len(seenCache[k].To) == 0
//@   invariant L3: [C08:inv] forall k string :: (k in seenCache) && (k in _V1) && k != f ==> (forall a int, b int :: 0 <= a && a < b && b < len(seenCache[k].To) ==> seenCache[k].To[a] != seenCache[k].To[b])
//@   invariant L3: [C08:inv] (f in seenCache) && (forall j int :: 0 <= j && j < len(seenCache[f].To) ==> (seenCache[f].To[j] in _V)) && (forall a int, b int :: 0 <= a && a < b && b < len(seenCache[f].To) ==> seenCache[f].To[a] != seenCache[f].To[b])
//@   ensures [C08:cleanEdges:closedTo] forall e *Edge :: (e in elems(nl.Edges)) ==> (forall j int :: 0 <= j && j < len(e.To) ==> (e.To[j] in fieldset(nl.Nodes, Id)))
//@   invariant L0: [C08:inv] (forall k string :: (k in seenCache) ==> len(seenCache[k].To) == 0) && (forall k string, s string :: (k in newTos) && (s in newTos[k]) ==> (s in fieldset(nl.Nodes, Id)))
//@   invariant L1: [C08:inv] (forall k string :: (k in seenCache) ==> len(seenCache[k].To) == 0) && (forall k string, s string :: (k in newTos) && (s in newTos[k]) ==> (s in fieldset(nl.Nodes, Id)))
//@   invariant L2: [C08:inv] (forall k string, s string :: (k in newTos) && (s in newTos[k]) ==> (s in fieldset(nl.Nodes, Id)))
//@   invariant L2: [C08:inv] forall k string :: (k in seenCache) ==> (forall j int :: 0 <= j && j < len(seenCache[k].To) ==> (seenCache[k].To[j] in fieldset(nl.Nodes, Id)))
//@   invariant L2: [C08:inv] forall e *Edge :: (e in elems(newEdges)) ==> (forall j int :: 0 <= j && j < len(e.To) ==> (e.To[j] in fieldset(nl.Nodes, Id)))
//@   invariant L3: [C08:inv] (forall k string, s string :: (k in newTos) && (s in newTos[k]) ==> (s in fieldset(nl.Nodes, Id)))
//@   invariant L3: [C08:inv] forall k string :: (k in seenCache) ==> (forall j int :: 0 <= j && j < len(seenCache[k].To) ==> (seenCache[k].To[j] in fieldset(nl.Nodes, Id)))
//@   invariant L3: [C08:inv] forall e *Edge :: (e in elems(newEdges)) ==> (forall j int :: 0 <= j && j < len(e.To) ==> (e.To[j] in fieldset(nl.Nodes, Id)))
//@   invariant L0: [C08:inv] (forall k string :: (k in nodeIndex) <==> (k in fieldset(nl.Nodes, Id))) && (forall k string :: (k in seenCache) ==> (seenCache[k].From in fieldset(nl.Nodes, Id)))
//@   invariant L1: [C08:inv] (forall k string :: (k in nodeIndex) <==> (k in fieldset(nl.Nodes, Id))) && (forall k string :: (k in seenCache) ==> (seenCache[k].From in fieldset(nl.Nodes, Id)))
//@   invariant L2: [C08:inv] (forall k string :: (k in seenCache) ==> (seenCache[k].From in fieldset(nl.Nodes, Id))) && (forall e *Edge :: (e in elems(newEdges)) ==> (e.From in fieldset(nl.Nodes, Id)) && len(e.To) > 0)
//@   invariant L3: [C08:inv] (forall k string :: (k in seenCache) ==> (seenCache[k].From in fieldset(nl.Nodes, Id))) && (forall e *Edge :: (e in elems(newEdges)) ==> (e.From in fieldset(nl.Nodes, Id)) && len(e.To) > 0)
//@   invariant L2: fresh(arr(newEdges)) && (forall e *Edge :: (e in elems(newEdges)) ==> fresh(e) && (arr(e.To) == nil || fresh(arr(e.To)))) && (forall k string :: (k in seenCache) ==> seenCache[k] != nil && fresh(seenCache[k]) && (arr(seenCache[k].To) == nil || fresh(arr(seenCache[k].To))))
//@   invariant L3: fresh(arr(newEdges)) && (forall e *Edge :: (e in elems(newEdges)) ==> fresh(e) && (arr(e.To) == nil || fresh(arr(e.To)))) && (forall k string :: (k in seenCache) ==> seenCache[k] != nil && fresh(seenCache[k]) && (arr(seenCache[k].To) == nil || fresh(arr(seenCache[k].To))))
//@   invariant L0: forall k string :: (k in seenCache) ==> seenCache[k] != nil && fresh(seenCache[k]) && (arr(seenCache[k].To) == nil || fresh(arr(seenCache[k].To)))
//@   invariant L1: forall k string :: (k in seenCache) ==> seenCache[k] != nil && fresh(seenCache[k]) && (arr(seenCache[k].To) == nil || fresh(arr(seenCache[k].To)))

// C08: well-formedness of the graph (closedness part)
//@ pred closedRoots(nl *NodeList) = forall r string :: (r in elems(nl.RootElements)) ==> (r in fieldset(nl.Nodes, Id))
//@ pred closedEdges(nl *NodeList) = forall e *Edge :: (e in elems(nl.Edges)) ==> (e.From in fieldset(nl.Nodes, Id)) && (forall j int :: 0 <= j && j < len(e.To) ==> (e.To[j] in fieldset(nl.Nodes, Id)))

//@ pred normalisedNL(nl *NodeList) = (forall i int, j int :: 0 <= i && i < j && j < len(nl.Edges) ==> !(nl.Edges[i].From == nl.Edges[j].From && nl.Edges[i].Type == nl.Edges[j].Type)) && (forall i int :: 0 <= i && i < len(nl.Edges) ==> len(nl.Edges[i].To) > 0 && (forall a int, b int :: 0 <= a && a < b && b < len(nl.Edges[i].To) ==> nl.Edges[i].To[a] != nl.Edges[i].To[b]))

//@ func NodeList.RemoveNodes
//@   props C04, C08
//@   requires validNL(nl) && closedRoots(nl)
//@   assigns nl.Nodes, nl.Edges, nl.RootElements
//@   ensures [validNL] validNL(nl)
//@   ensures [C08:remove:exactly] forall x string :: (x in fieldset(nl.Nodes, Id)) <==> ((x in old(fieldset(nl.Nodes, Id))) && !(x in elems(ids)))
//@   ensures [C08:remove:rootsClosed] closedRoots(nl)
//@   ensures [C08:remove:edgesClosed] closedEdges(nl)
//@   ensures [C08:remove:normalised] normalisedNL(nl)
//@   invariant L0: [C08:inv] forall x string :: (x in idDict) <==> (x in elemsn(ids, _i))
//@   invariant L1: [C08:inv] forall x string :: (x in idDict) <==> (x in elems(ids))
//@   invariant L1: [C08:inv] !(nil in elems(newNodeList))
//@   invariant L1: [C08:inv] forall y string :: (y in fieldset(newNodeList, Id)) <==> ((y in fieldsetn(nl.Nodes, Id, _i)) && !(y in elems(ids)))
//@   invariant L2: [C08:inv] (forall x string :: (x in idDict) <==> (x in elems(ids))) && !(nil in elems(newNodeList)) && (forall y string :: (y in fieldset(newNodeList, Id)) <==> ((y in fieldset(nl.Nodes, Id)) && !(y in elems(ids))))
//@   invariant L2: [C08:inv] forall r string :: (r in elems(newRootElements)) ==> ((r in elems(nl.RootElements)) && !(r in elems(ids)))

//@ pred uniqueIdx(nl *NodeList) = forall i int, j int :: 0 <= i && i < j && j < len(nl.Nodes) ==> nl.Nodes[i].Id != nl.Nodes[j].Id

// the root list does not share its backing array with an edge's target list
//@ pred addSep(nl *NodeList, nl2 *NodeList) = (forall e *Edge :: ((e in elems(nl.Edges)) || (e in elems(nl2.Edges))) ==> arr(e.To) == nil || arr(e.To) != arr(nl.RootElements))

//@ func NodeList.Add
//@   props C04, C08, C09
//@   requires validNL(nl) && validNL(nl2) && separatedNL(nl, nl2)
//@   assigns nl.Nodes, nl.Edges, nl.RootElements, (nl.Nodes)[*]
//@   ensures [validNL] validNL(nl)
//@   ensures [C09:add:ids] (forall x string :: (x in fieldset(nl.Nodes, Id)) <==> ((x in old(fieldset(nl.Nodes, Id))) || (x in fieldset(nl2.Nodes, Id))))
//@   ensures [C09:add:roots] old(addSep(nl, nl2)) ==> (forall r string :: (r in elems(nl.RootElements)) <==> ((r in old(elems(nl.RootElements))) || (r in elems(nl2.RootElements))))
//@   ensures [C09:add:keep:Version] forall i0 int :: 0 <= i0 && i0 < old(len(nl.Nodes)) && old(nl.Nodes[i0].Version) != "" ==> nl.Nodes[i0].Version == old(nl.Nodes[i0].Version)
//@   ensures [C09:add:fill:Version] old(uniqueIdx(nl)) ==> (forall i0 int, j int :: 0 <= i0 && i0 < old(len(nl.Nodes)) && 0 <= j && j < len(nl2.Nodes) && nl2.Nodes[j].Id == nl.Nodes[i0].Id && nl.Nodes[i0].Version == "" ==> nl2.Nodes[j].Version == "")
//@   invariant L0: [C09:inv] forall i0 int :: 0 <= i0 && i0 < old(len(nl.Nodes)) && old(nl.Nodes[i0].Version) != "" ==> nl.Nodes[i0].Version == old(nl.Nodes[i0].Version)
//@   invariant L0: [C09:inv] old(uniqueIdx(nl)) ==> (forall i0 int :: 0 <= i0 && i0 < old(len(nl.Nodes)) ==> (nl.Nodes[i0].Id in existingNodes) && existingNodes[nl.Nodes[i0].Id] == nl.Nodes[i0])
//@   invariant L0: [C09:inv] old(uniqueIdx(nl)) ==> (forall i0 int, j int :: 0 <= i0 && i0 < old(len(nl.Nodes)) && 0 <= j && j < _i && nl2.Nodes[j].Id == nl.Nodes[i0].Id && nl.Nodes[i0].Version == "" ==> nl2.Nodes[j].Version == "")
//@   invariant L0: [C09:inv] nl2.Nodes == old(nl2.Nodes) && (forall j int :: 0 <= j && j < len(nl2.Nodes) ==> nl2.Nodes[j] == old(nl2.Nodes[j]))
//@   invariant L0: [C09:inv] len(nl.Nodes) >= old(len(nl.Nodes)) && (forall i0 int :: 0 <= i0 && i0 < old(len(nl.Nodes)) ==> nl.Nodes[i0] == old(nl.Nodes[i0]) && nl.Nodes[i0].Id == old(nl.Nodes[i0].Id))
//@   invariant L1: [C09:inv] len(nl.Nodes) >= old(len(nl.Nodes)) && (forall i0 int :: 0 <= i0 && i0 < old(len(nl.Nodes)) ==> nl.Nodes[i0] == old(nl.Nodes[i0]))
//@   invariant L2: [C09:inv] len(nl.Nodes) >= old(len(nl.Nodes)) && (forall i0 int :: 0 <= i0 && i0 < old(len(nl.Nodes)) ==> nl.Nodes[i0] == old(nl.Nodes[i0]))
//@   ensures [C08:add:edgesClosed] closedEdges(nl)
//@   ensures [C08:add:normalised] normalisedNL(nl)
//@   invariant L0: validNL(nl) && validNL(nl2)
//@   invariant L0: [C09:inv] existingNodes != nil && (forall k string :: (k in existingNodes) <==> (k in old(fieldset(nl.Nodes, Id)))) && (forall k string :: (k in existingNodes) ==> existingNodes[k] != nil && existingNodes[k].Id == k && (existingNodes[k] in old(elems(nl.Nodes))))
//@   invariant L0: [C09:inv] (forall x string :: (x in fieldset(nl.Nodes, Id)) <==> ((x in old(fieldset(nl.Nodes, Id))) || (x in fieldsetn(nl2.Nodes, Id, _i))))
//@   invariant L0: [C09:inv] old(addSep(nl, nl2)) ==> addSep(nl, nl2) && (forall r string :: (r in elems(nl.RootElements)) <==> (r in old(elems(nl.RootElements))))
//@   invariant L1: validNL(nl) && validNL(nl2)
//@   invariant L1: [C09:inv] old(addSep(nl, nl2)) ==> addSep(nl, nl2)
//@   invariant L1: [C09:inv] old(addSep(nl, nl2)) ==> (forall r string :: (r in elems(nl.RootElements)) <==> (r in old(elems(nl.RootElements))))
//@   invariant L1: [C09:inv] existingEdges != nil && (forall f string, t Edge_Type :: (f in existingEdges) && (t in existingEdges[f]) ==> len(existingEdges[f][t]) >= 1 && existingEdges[f][t][0] != nil && (existingEdges[f][t][0] in elems(nl.Edges)))
//@   invariant L2: validNL(nl) && validNL(nl2)
//@   invariant L2: [C09:inv] old(addSep(nl, nl2)) ==> (forall r string :: (r in elems(nl.RootElements)) <==> ((r in old(elems(nl.RootElements))) || (r in elemsn(nl2.RootElements, _i))))
//@   invariant L2: [C09:inv] old(addSep(nl, nl2)) ==> (forall k string :: (k in rootElements) ==> (k in old(elems(nl.RootElements))))

// closedRoots in index form (robust against in-place appends that overwrite a shared cell with a valid identifier)
//@ pred closedRootsIdx(nl *NodeList) = forall j int :: 0 <= j && j < len(nl.RootElements) ==> (nl.RootElements[j] in fieldset(nl.Nodes, Id))

//@ func NodeList.RelateNodeAtID
//@   props C08
//@   requires validNL(nl) && n != nil
//@   ensures [C08:relateNode:error] (result != nil) <==> !(nodeID in old(fieldset(nl.Nodes, Id)))
//@   ensures [C08:relateNode:unchangedOnError] result != nil ==> nl.Nodes == old(nl.Nodes) && nl.Edges == old(nl.Edges) && nl.RootElements == old(nl.RootElements)
//@   ensures [C08:relateNode:valid] validNL(nl)
//@   ensures [C08:relateNode:ids] result == nil ==> (forall x string :: (x in fieldset(nl.Nodes, Id)) <==> ((x in old(fieldset(nl.Nodes, Id))) || x == n.Id))
//@   ensures [C08:relateNode:closed] result == nil && old(closedEdges(nl)) ==> closedEdges(nl)
//@   ensures [C08:relateNode:rootsClosed] old(closedRootsIdx(nl)) ==> closedRootsIdx(nl)
//@   ensures [C08:relateNode:unique] old(uniqueIdx(nl)) ==> uniqueIdx(nl)

//@ func NodeList.RelateNodeListAtID
//@   props C04, C08, C05
//@   ensures [C05:relate:prefix] len(nl.Nodes) >= old(len(nl.Nodes)) && (forall a int :: 0 <= a && a < old(len(nl.Nodes)) ==> nl.Nodes[a] == old(nl.Nodes[a]))
//@   invariant L0: [C05:inv] len(nl.Nodes) >= old(len(nl.Nodes)) && (forall a int :: 0 <= a && a < old(len(nl.Nodes)) ==> nl.Nodes[a] == old(nl.Nodes[a]))
//@   invariant L1: [C05:inv] len(nl.Nodes) >= old(len(nl.Nodes)) && (forall a int :: 0 <= a && a < old(len(nl.Nodes)) ==> nl.Nodes[a] == old(nl.Nodes[a]))
//@   ensures [C05:relate:nodesGrow] forall x string :: (x in old(fieldset(nl.Nodes, Id))) ==> (x in fieldset(nl.Nodes, Id))
//@   invariant L0: [C05:inv] forall x string :: (x in old(fieldset(nl.Nodes, Id))) ==> (x in fieldset(nl.Nodes, Id))
//@   invariant L1: [C05:inv] forall x string :: (x in old(fieldset(nl.Nodes, Id))) ==> (x in fieldset(nl.Nodes, Id))
//@   requires validNL(nl) && validNL(nl2) && separatedNL(nl, nl2)
//@   assigns nl.Nodes, nl.Edges, nl.RootElements, (nl.Edges)[*]
//@   ensures [validNL] validNL(nl)
//@   ensures [arrays] (arr(nl.Nodes) == old(arr(nl.Nodes)) || fresh(arr(nl.Nodes))) && (arr(nl.Edges) == old(arr(nl.Edges)) || fresh(arr(nl.Edges))) && nl.RootElements == old(nl.RootElements)
//@   invariant L0: validNL(nl) && validNL(nl2) && nl2.Nodes == old(nl2.Nodes) && (arr(nl2.Nodes) == nil || arr(nl.Nodes) != arr(nl2.Nodes))
//@   invariant L0: (arr(nl.Nodes) == old(arr(nl.Nodes)) || fresh(arr(nl.Nodes))) && (arr(nl.Edges) == old(arr(nl.Edges)) || fresh(arr(nl.Edges)))
//@   invariant L1: validNL(nl) && validNL(nl2)
//@   invariant L1: (arr(nl.Nodes) == old(arr(nl.Nodes)) || fresh(arr(nl.Nodes))) && (arr(nl.Edges) == old(arr(nl.Edges)) || fresh(arr(nl.Edges)))

//@ func NewNodeIdentifier
//@   props C04, C05
//@   assigns \nothing
//@   ensures [C05:identifier:nonEmpty] result != ""
//@   ensures [C05:identifier:prefix] hasPrefix(result, "protobom")
//@   invariant L0: len(knownPrefixes) >= 1 && knownPrefixes[0] == "protobom" && arr(knownPrefixes) != arr(validPrefixes) && fresh(arr(knownPrefixes)) && (cap(validPrefixes) == 0 || fresh(arr(validPrefixes)))
//@   invariant L1: len(knownPrefixes) >= 1 && knownPrefixes[0] == "protobom" && arr(knownPrefixes) != arr(validPrefixes) && fresh(arr(knownPrefixes)) && (cap(validPrefixes) == 0 || fresh(arr(validPrefixes)))

// a switch over the enum: state independent; contracts use its shadow function under quantifiers
//@ func Edge_Type.ToSPDX2
//@   props C01
//@   shadow

// ---------------------------------------------------------------------------
// C09 / C10: the algebraic laws on identifier and root sets, as lemmas over the
// postconditions of Union and Intersect (unionSets / intersectSets restate the
// [C09:union:ids], [C09:union:roots], [C10:intersect:ids] clauses)
// ---------------------------------------------------------------------------
//@ pred unionSets(r *NodeList, a *NodeList, b *NodeList) = (forall x string :: (x in fieldset(r.Nodes, Id)) <==> ((x in fieldset(a.Nodes, Id)) || (x in fieldset(b.Nodes, Id)))) && (forall y string :: (y in elems(r.RootElements)) <==> ((y in elems(a.RootElements)) || (y in elems(b.RootElements))))
//@ pred intersectIds(r *NodeList, a *NodeList, b *NodeList) = forall x string :: (x in fieldset(r.Nodes, Id)) <==> ((x in fieldset(a.Nodes, Id)) && (x in fieldset(b.Nodes, Id)))
//@ pred sameSets(r *NodeList, s *NodeList) = (forall x string :: (x in fieldset(r.Nodes, Id)) <==> (x in fieldset(s.Nodes, Id))) && (forall y string :: (y in elems(r.RootElements)) <==> (y in elems(s.RootElements)))
//@ pred sameIds(r *NodeList, s *NodeList) = forall x string :: (x in fieldset(r.Nodes, Id)) <==> (x in fieldset(s.Nodes, Id))

//@ lemma unionCommutative [C09]: forall a *NodeList, b *NodeList, r1 *NodeList, r2 *NodeList :: unionSets(r1, a, b) && unionSets(r2, b, a) ==> sameSets(r1, r2)
//@ lemma unionIdempotent [C09]: forall a *NodeList, r *NodeList :: unionSets(r, a, a) ==> sameSets(r, a)
//@ lemma unionAssociative [C09]: forall a *NodeList, b *NodeList, c *NodeList, ab *NodeList, bc *NodeList, r1 *NodeList, r2 *NodeList :: unionSets(ab, a, b) && unionSets(r1, ab, c) && unionSets(bc, b, c) && unionSets(r2, a, bc) ==> sameSets(r1, r2)
//@ lemma unionIdentity [C09]: forall a *NodeList, e *NodeList, r *NodeList :: len(e.Nodes) == 0 && len(e.RootElements) == 0 && unionSets(r, a, e) ==> sameSets(r, a)
//@ lemma intersectCommutative [C10]: forall a *NodeList, b *NodeList, r1 *NodeList, r2 *NodeList :: intersectIds(r1, a, b) && intersectIds(r2, b, a) ==> sameIds(r1, r2)
//@ lemma intersectIdempotent [C10]: forall a *NodeList, r *NodeList :: intersectIds(r, a, a) ==> sameIds(r, a)
//@ lemma intersectAbsorption [C10]: forall a *NodeList, b *NodeList, u *NodeList, r *NodeList :: unionSets(u, a, b) && intersectIds(r, a, u) ==> sameIds(r, a)
//@ lemma intersectEmpty [C10]: forall a *NodeList, e *NodeList, r *NodeList :: len(e.Nodes) == 0 && intersectIds(r, a, e) ==> len(r.Nodes) == 0 || (forall x string :: !(x in fieldset(r.Nodes, Id)))
