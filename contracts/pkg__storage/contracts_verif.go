//go:build verif

// Contracts for package storage.
package storage

//@ interface StoreRetriever.Store(sr StoreRetriever, bom *sbom.Document, opts *StoreOptions)
//@   assigns \nothing

//@ interface StoreRetriever.Retrieve(sr StoreRetriever, id string, opts *RetrieveOptions)
//@   assigns \nothing
//@   ensures result1 == nil ==> result0 != nil
