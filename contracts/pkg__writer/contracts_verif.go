//go:build verif

// Contracts for package writer.
package writer
