//go:build verif

// Contracts for package writer.
package writer

// C18: a write never changes the writer's configuration, the per-call options
// it is handed, or the package defaults (frame condition)
//@ func Writer.WriteStreamWithOptions
//@   props C07, C18
//@   assigns \nothing
//@   requires w.Options != nil && o != nil && defaultOptions != nil && defaultOptions.SerializeOptions != nil && defaultOptions.RenderOptions != nil

//@ func GetFormatSerializer
//@   props C07

//@ global serializers trusted-concurrent
//@ global once trusted-concurrent
//@ global defaultOptions immutable-after-init
//@ package-props C17

// ---------------------------------------------------------------------------
// C18: configuration isolation. An option may write the instance it is applied
// to and that instance's option object, nothing else.
// ---------------------------------------------------------------------------
//@ type WriterOption(w *Writer)
//@   requires w != nil && w.Options != nil
//@   assigns w.Storage, w.Options.*, (w.Options.formatOptions)[*]
//@   ensures [C18:option:map] w.Options.formatOptions == old(w.Options.formatOptions) || fresh(w.Options.formatOptions)

//@ func WithRenderOptions$1
//@   props C18
//@   requires w != nil && w.Options != nil
//@   assigns w.Storage, w.Options.*, (w.Options.formatOptions)[*]
//@   ensures [C18:option:map] w.Options.formatOptions == old(w.Options.formatOptions) || fresh(w.Options.formatOptions)
//@ func WithSerializeOptions$1
//@   props C18
//@   requires w != nil && w.Options != nil
//@   assigns w.Storage, w.Options.*, (w.Options.formatOptions)[*]
//@   ensures [C18:option:map] w.Options.formatOptions == old(w.Options.formatOptions) || fresh(w.Options.formatOptions)
//@ func WithFormatOptions$1
//@   props C18
//@   requires w != nil && w.Options != nil
//@   assigns w.Storage, w.Options.*, (w.Options.formatOptions)[*]
//@   ensures [C18:option:map] w.Options.formatOptions == old(w.Options.formatOptions) || fresh(w.Options.formatOptions)
//@ func WithFormat$1
//@   props C18
//@   requires w != nil && w.Options != nil
//@   assigns w.Storage, w.Options.*, (w.Options.formatOptions)[*]
//@   ensures [C18:option:map] w.Options.formatOptions == old(w.Options.formatOptions) || fresh(w.Options.formatOptions)
//@ func WithStoreRetriever$1
//@   props C18
//@   requires w != nil && w.Options != nil
//@   assigns w.Storage, w.Options.*, (w.Options.formatOptions)[*]
//@   ensures [C18:option:map] w.Options.formatOptions == old(w.Options.formatOptions) || fresh(w.Options.formatOptions)
//@ func WithStoreOptions$1
//@   props C18
//@   requires w != nil && w.Options != nil
//@   assigns w.Storage, w.Options.*, (w.Options.formatOptions)[*]
//@   ensures [C18:option:map] w.Options.formatOptions == old(w.Options.formatOptions) || fresh(w.Options.formatOptions)

// a constructor starts from the library defaults and never writes them
//@ func New
//@   props C18
//@   requires defaultOptions != nil
//@   assigns global(serializers), global(once)
//@   ensures [C18:new:freshInstance] result != nil && fresh(result) && result.Options != nil && fresh(result.Options)
