//go:build verif

// Contracts for package writer.
package writer

//@ func Writer.WriteStreamWithOptions
//@   props C07
//@   requires w.Options != nil && o != nil && defaultOptions != nil && defaultOptions.SerializeOptions != nil && defaultOptions.RenderOptions != nil

//@ func GetFormatSerializer
//@   props C07
