//go:build verif

// Contracts for package sbom, read by /verif/govc (comment-only file: with the
// build tag off the compiler does not even parse it).
package sbom

// ---------------------------------------------------------------------------
// Valid input values: repeated message fields hold no nil element.
// ---------------------------------------------------------------------------

//@ typeinv NodeList: (forall i int :: 0 <= i && i < len(self.Nodes) ==> self.Nodes[i] != nil) && (forall j int :: 0 <= j && j < len(self.Edges) ==> self.Edges[j] != nil)
//@ typeinv Node: (forall i int :: 0 <= i && i < len(self.Suppliers) ==> self.Suppliers[i] != nil) && (forall j int :: 0 <= j && j < len(self.Originators) ==> self.Originators[j] != nil) && (forall k int :: 0 <= k && k < len(self.ExternalReferences) ==> self.ExternalReferences[k] != nil)
//@ typeinv Person: forall i int :: 0 <= i && i < len(self.Contacts) ==> self.Contacts[i] != nil

// ---------------------------------------------------------------------------
// C11 (read-only operations leave operands unchanged): assigns \nothing
// C12 (copies are independent values): owns
// ---------------------------------------------------------------------------

//@ func Person.Copy
//@   props C11, C12
//@   assigns \nothing
//@   owns

//@ func ExternalReference.Copy
//@   props C11, C12
//@   assigns \nothing
//@   owns

//@ func Edge.Copy
//@   props C11, C12
//@   assigns \nothing
//@   owns

//@ func Node.Copy
//@   props C11, C12
//@   assigns \nothing
//@   owns
