//go:build verif

package sbom

//@ func Person.Copy
//@   requires p != nil
//@   assigns \nothing
//@   owns
