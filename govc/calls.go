package main

import (
	"fmt"
	"go/token"
	"go/types"
	"sort"
	"strings"

	"golang.org/x/tools/go/ssa"
)

const maxInlineDepth = 10

func (e *Engine) inScope(fn *ssa.Function) bool {
	if fn.Pkg == nil {
		if fn.Origin() != nil && fn.Origin().Pkg != nil {
			return strings.HasPrefix(fn.Origin().Pkg.Pkg.Path(), "github.com/protobom/protobom")
		}
		if fn.Parent() != nil {
			return e.inScope(fn.Parent())
		}
		// wrappers / bound methods
		if fn.Signature.Recv() != nil {
			if n := namedOf(fn.Signature.Recv().Type()); n != nil && n.Obj().Pkg() != nil {
				return strings.HasPrefix(n.Obj().Pkg().Path(), "github.com/protobom/protobom")
			}
		}
		return false
	}
	return strings.HasPrefix(fn.Pkg.Pkg.Path(), "github.com/protobom/protobom")
}

func namedOf(t types.Type) *types.Named {
	if p, ok := t.(*types.Pointer); ok {
		t = p.Elem()
	}
	n, _ := t.(*types.Named)
	return n
}

func hasLoops(fn *ssa.Function) bool {
	for _, b := range fn.Blocks {
		for _, s := range b.Succs {
			if s.Dominates(b) {
				return true
			}
		}
	}
	return false
}

func (f *Frame) onStack(fn *ssa.Function) bool {
	for x := f; x != nil; x = x.parent {
		if x.fn == fn {
			return true
		}
	}
	return false
}

// call translates a call instruction (x may be nil for deferred calls).
func (f *Frame) call(st *State, x *ssa.Call, c *ssa.CallCommon, pos token.Pos) {
	vc := f.vc
	setResult := func(v Val) {
		if x != nil {
			f.vals[x] = v
		}
	}
	resT := c.Signature().Results()
	var resultType types.Type = resT
	if resT.Len() == 1 {
		resultType = resT.At(0).Type()
	}
	if b, ok := c.Value.(*ssa.Builtin); ok {
		setResult(f.builtin(st, x, b, c, pos))
		return
	}
	var args []Val
	for _, a := range c.Args {
		args = append(args, f.val(a))
	}
	callee := c.StaticCallee()
	var bindings []Val
	if callee == nil && !c.IsInvoke() {
		fv := f.val(c.Value)
		if fv.Fn != nil {
			callee = fv.Fn
			bindings = fv.Bnd
		}
	} else if callee != nil {
		if mc, ok := c.Value.(*ssa.MakeClosure); ok {
			bindings = f.val(mc).Bnd
		}
	}
	if callee == nil {
		f.dynamicCall(st, x, c, args, resultType, pos)
		return
	}
	name := callee.String()
	if callee.Synthetic == "package initializer" {
		// initialisation of imported packages: outside the verified code
		setResult(Val{T: resultType})
		return
	}
	if ext := vc.eng.extFor(callee); ext != nil {
		vc.usedExt[name] = true
		setResult(ext.apply(f, st, c, args, resultType, pos))
		return
	}
	if !vc.eng.inScope(callee) {
		if callee.Synthetic != "" && callee.Blocks != nil && f.depth < maxInlineDepth {
			res := f.inline(st, callee, args, bindings, pos)
			setResult(packResults(resultType, res))
			return
		}
		f.unsupported("call to external %s without trusted contract", name)
		setResult(vc.freshVal("ext", resultType))
		return
	}
	// in-scope callee: contract, else inline
	if spec := vc.eng.specs.funcSpec(callee); spec != nil && !spec.Inline && !(f.root && f.fn == callee && false) {
		vc.usedSpec[fnDisplayName(callee)] = true
		setResult(f.contractCall(st, spec, callee, args, resultType, pos))
		return
	}
	if f.onStack(callee) {
		f.unsupported("recursive call to %s without contract", fnDisplayName(callee))
		setResult(vc.freshVal("rec", resultType))
		return
	}
	if f.depth >= maxInlineDepth {
		f.unsupported("inline depth exceeded at %s", fnDisplayName(callee))
		setResult(vc.freshVal("deep", resultType))
		return
	}
	if hasLoops(callee) && !vc.eng.allowLoopInline {
		// loops are cut with inferred invariants even when inlined; fine for
		// SAFE/FRAME classes, but functional obligations need a contract.
		vc.inlined[fnDisplayName(callee)+" (loops, inferred invariants)"] = true
	} else {
		vc.inlined[fnDisplayName(callee)] = true
	}
	res := f.inline(st, callee, args, bindings, pos)
	if spec := vc.eng.specs.funcSpec(callee); spec != nil && spec.Shadow {
		f.shadowFact(st, callee, args, res)
	}
	setResult(packResults(resultType, res))
}

// shadowFact relates the shadow function of a state-independent callee to the
// value its inlined body computed at these arguments.
func (f *Frame) shadowFact(st *State, callee *ssa.Function, args []Val, res []Val) {
	if !stateIndependent(callee) || len(res) != 1 || len(res[0].L) != 1 {
		f.unsupported("shadow function %s is not a state-independent function with one scalar result", fnDisplayName(callee))
		return
	}
	for _, a := range args {
		if len(a.L) != 1 {
			f.unsupported("shadow function %s has a non-scalar argument", fnDisplayName(callee))
			return
		}
	}
	u := ufResult(f, fmt.Sprintf("pure|%s|%d", fnDisplayName(callee), 0), shadowArgs(callee, args), res[0].T)
	f.vc.fact(Imp(st.reach, Eq(u.one(), res[0].one())))
}

// shadowArgs: the arguments the shadow function of fn depends on. A receiver
// the body never mentions is dropped, so that contracts can write T.m(nil, x).
func shadowArgs(fn *ssa.Function, args []Val) []Val {
	if fn.Signature.Recv() != nil && len(fn.Params) == len(args) && len(args) > 0 {
		if refs := fn.Params[0].Referrers(); refs != nil {
			used := false
			for _, r := range *refs {
				if _, isDbg := r.(*ssa.DebugRef); !isDbg {
					used = true
				}
			}
			if !used {
				return args[1:]
			}
		}
	}
	return args
}

// stateIndependent: the body reads and writes no memory and calls nothing
// (switch / arithmetic / constants only).
func stateIndependent(fn *ssa.Function) bool {
	for _, b := range fn.Blocks {
		for _, in := range b.Instrs {
			switch x := in.(type) {
			case *ssa.Store, *ssa.MapUpdate, *ssa.Alloc, *ssa.MakeMap, *ssa.MakeSlice, *ssa.MakeChan, *ssa.Go, *ssa.Defer, *ssa.Send, *ssa.Lookup, *ssa.Index, *ssa.IndexAddr, *ssa.FieldAddr, *ssa.Range, *ssa.Next, *ssa.Call:
				_ = x
				return false
			case *ssa.UnOp:
				if x.Op == token.MUL || x.Op == token.ARROW {
					return false
				}
			}
		}
	}
	return true
}

func packResults(t types.Type, res []Val) Val {
	if tt, ok := t.(*types.Tuple); ok {
		out := Val{T: tt}
		for _, r := range res {
			out.L = append(out.L, r.L...)
			out.Bnd = append(out.Bnd, Val{Loc: r.Loc, Fn: r.Fn})
		}
		return out
	}
	if len(res) == 0 {
		return Val{T: t}
	}
	return res[0]
}

// inline translates callee in place; st is updated to the exit state.
func (f *Frame) inline(st *State, callee *ssa.Function, args, bindings []Val, pos token.Pos) []Val {
	// interior pointers passed as arguments: copy-in / copy-out through a temp
	args, copyOut := f.materializePtrArgs(st, callee, args)
	sub := &Frame{vc: f.vc, fn: callee, fname: fnDisplayName(callee), depth: f.depth + 1, parent: f}
	sub.spec = f.vc.eng.specs.funcSpec(callee)
	if sub.spec != nil {
		if specUsesFieldSets(sub.spec) {
			f.vc.useFS = true
		}
		sub.bindLoopInvs()
	}
	res, out := sub.run(st, args, bindings)
	*st = *out
	copyOut(st)
	return res
}

// materializePtrArgs replaces interior pointers by pointers to fresh temporaries.
func (f *Frame) materializePtrArgs(st *State, callee *ssa.Function, args []Val) ([]Val, func(*State)) {
	vc := f.vc
	var outs []func(*State)
	res := make([]Val, len(args))
	copy(res, args)
	for i, a := range args {
		if a.Loc == nil || !a.Loc.Interior {
			continue
		}
		if _, ok := a.T.Underlying().(*types.Pointer); !ok {
			continue
		}
		loc := a.Loc
		cur := vc.load(st, loc)
		r := vc.alloc(st, "tmp", kindOfPtr(a.T))
		tl := objLoc(a.T, r)
		vc.store(st, tl, cur)
		res[i] = Val{T: a.T, L: []Term{r}}
		outs = append(outs, func(s *State) {
			after := vc.load(s, tl)
			// copy-out is a write only if the callee changed the temp
			if valEq(after, cur).S != "true" {
				vc.store(s, loc, after)
			}
		})
	}
	return res, func(s *State) {
		for _, o := range outs {
			o(s)
		}
	}
}

// ---- builtins ----

func (f *Frame) builtin(st *State, x *ssa.Call, b *ssa.Builtin, c *ssa.CallCommon, pos token.Pos) Val {
	vc := f.vc
	arg := func(i int) Val { return f.val(c.Args[i]) }
	var rt types.Type = types.Typ[types.Int]
	if x != nil {
		rt = x.Type()
	}
	switch b.Name() {
	case "len":
		a := arg(0)
		switch c.Args[0].Type().Underlying().(type) {
		case *types.Slice:
			return scalar(rt, a.len())
		case *types.Map:
			f.mapSizeFacts(st, c.Args[0].Type(), a.one(), nil)
			_, size, _ := f.mapComps(c.Args[0].Type())
			return scalar(rt, Select(vc.get(st, size), a.one()))
		case *types.Basic:
			return scalar(rt, mk(SInt, "str.len", a.one()))
		}
	case "cap":
		a := arg(0)
		if _, ok := c.Args[0].Type().Underlying().(*types.Slice); ok {
			return scalar(rt, a.cap_())
		}
	case "append":
		s := arg(0)
		if len(c.Args) == 1 {
			return s
		}
		return f.appendOp(st, x, s, arg(1))
	case "delete":
		if g := arg(0).Glob; g != "" {
			f.lockCheck(st, &Loc{Kind: LGlobal, Root: "G|" + g, Path: " (map contents)"}, true, pos)
		}
		f.mapDelete(st, c.Args[0].Type(), arg(0).one(), arg(1).one(), pos)
		return Val{T: rt}
	case "panic":
		f.oblige(st, "SAFE", "explicit panic", pos, False)
		return Val{T: rt}
	case "print", "println":
		return Val{T: rt}
	case "ssa:wrapnilchk":
		f.oblige(st, "SAFE", "nil receiver in wrapper", pos, Ne(arg(0).one(), Zero))
		return arg(0)
	case "min", "max":
		a, bb := arg(0).one(), arg(1).one()
		if b.Name() == "min" {
			return scalar(rt, Ite(Le(a, bb), a, bb))
		}
		return scalar(rt, Ite(Ge(a, bb), a, bb))
	}
	f.unsupported("builtin %s", b.Name())
	return vc.freshVal("bi", rt)
}

// ---- contract calls ----

// contractCall: assert pre, havoc the callee's mod set under its frame, assume post.
func (f *Frame) contractCall(st *State, spec *FuncSpec, callee *ssa.Function, args []Val, resultType types.Type, pos token.Pos) Val {
	vc := f.vc
	args, copyOut := f.materializePtrArgs(st, callee, args)
	env := &SpecEnv{f: f, fn: callee, spec: spec, params: map[string]Val{}, pre: st.clone()}
	for i, p := range callee.Params {
		env.params[p.Name()] = args[i]
	}
	cname := shortFn(fnDisplayName(callee))
	f.holdsCheck(st, spec, cname, pos)
	if recv := callee.Signature.Recv(); recv != nil && len(args) > 0 {
		if _, ok := recv.Type().Underlying().(*types.Pointer); ok {
			f.oblige(st, "SAFE", "nil receiver in call "+cname, pos, Ne(args[0].one(), Zero))
		}
	}
	// preconditions
	for _, r := range spec.Requires {
		t := env.evalBool(r.Expr, env.pre, nil)
		f.oblige(st, "PRE", "call "+cname+" requires "+r.Text, pos, t)
	}
	// FRAME / OWN consequences of the callee's assigns clause
	mods := vc.eng.fnMods(callee, f.depth+1, map[*ssa.Function]bool{})
	if spec.Trusted || callee.Blocks == nil {
		mods = vc.eng.specMods(spec)
	}
	pre := env.pre
	targets := env.assignTargets(spec, pre)
	if f.frameOn() {
		for _, t := range targets {
			if t.Glob != "" {
				f.oblige(st, "FRAME", "call "+cname+" assigns package variable "+t.Glob, pos, f.assignsAllow(t.Glob, Zero))
				continue
			}
			if t.Any {
				// objects of a kind that is not type-reachable from the root
				// function's parameters cannot be operands: every such object the
				// callee can reach was allocated by this activation
				goal := f.assignsAllow(t.Root+"|"+t.Path, IntT(-9))
				if pk := f.paramKinds(); !pk[t.Root] && !pk["*"] {
					goal = True2()
				}
				f.oblige(st, "FRAME", "call "+cname+" assigns "+t.Text, pos, goal)
				continue
			}
			f.oblige(st, "FRAME", "call "+cname+" assigns "+t.Text, pos, Or(Ge(t.Base, vc.A0), Eq(t.Base, Zero), f.assignsAllow(t.Root+"|"+t.Path, t.Base)))
		}
	}
	f.havocCall(st, pre, mods, targets, spec.Owns)
	// results
	var results []Val
	res := callee.Signature.Results()
	for i := 0; i < res.Len(); i++ {
		var v Val
		if spec.Pure {
			// pure: the result is a function of the arguments (for the
			// duration of one activation of the root function, whose FRAME
			// obligations show that pre-existing objects do not change)
			v = ufResult(f, fmt.Sprintf("pure|%s|%d", fnDisplayName(callee), i), args, res.At(i).Type())
		} else {
			v = vc.freshVal("res_"+sanitize(cname), res.At(i).Type())
		}
		f.assumeWF(st, v)
		results = append(results, v)
	}
	env.results = results
	for _, e := range spec.Ensures {
		if skipLabel(e.Label) {
			continue
		}
		t := env.evalBool(e.Expr, st, pre)
		vc.fact(Imp(st.reach, t))
	}
	if spec.Owns {
		for _, r := range results {
			vc.fact(Imp(st.reach, f.freshOrNilValAt(r, pre.alloc)))
		}
	}
	// OWN at the call site: what the callee stored into caller-fresh objects
	if f.ownOn() {
		for _, t := range targets {
			if t.Glob != "" {
				continue
			}
			f.ownAfterCall(st, t, cname, pos)
		}
	}
	copyOut(st)
	return packResults(resultType, results)
}

func (f *Frame) freshOrNilValAt(v Val, a Term) Term {
	var cs []Term
	for i, l := range layout(v.T) {
		if isMutableRefLeaf(l) {
			cs = append(cs, Or(Eq(v.L[i], Zero), Ge(v.L[i], a)))
		}
	}
	return And(cs...)
}

// ownAfterCall checks the reference leaves the callee may have written into target.
func (f *Frame) ownAfterCall(st *State, t *AssignTarget, cname string, pos token.Pos) {
	vc := f.vc
	var names []string
	for k := range vc.comps {
		if strings.HasPrefix(k, t.Root+"|"+t.Path) && strings.HasPrefix(k, "H|") && isRefComp(k) {
			names = append(names, k)
		}
	}
	sort.Strings(names)
	for _, k := range names {
		e := Select(vc.get(st, k), t.Base)
		f.oblige(st, "OWN", "call "+cname+" stores into fresh "+k, pos, Imp(Ge(t.Base, vc.A0), Or(Eq(e, Zero), Ge(e, vc.A0))))
	}
}

// havocCall havocs comps in mods; objects that existed before the call keep
// their contents unless covered by an assigns target.
func (f *Frame) havocCall(st *State, pre *State, mods *ModSet, targets []*AssignTarget, owns bool) {
	vc := f.vc
	if mods.all {
		f.unsupported("call may modify anything: %s", mods.why)
	}
	var names []string
	for k, s := range mods.comps {
		vc.registerComp(k, s)
		names = append(names, k)
	}
	// package variables named in the assigns clause
	for _, t := range targets {
		if t.Glob == "" {
			continue
		}
		for k := range vc.comps {
			if strings.HasPrefix(k, t.Glob+"|") {
				if _, ok := mods.comps[k]; !ok {
					names = append(names, k)
				}
			}
		}
	}
	sort.Strings(names)
	for _, k := range names {
		if strings.HasPrefix(k, "V|") {
			continue
		}
		old := vc.get(pre, k)
		if strings.HasPrefix(k, "G|") {
			allowed := false
			for _, t := range targets {
				if t.Glob != "" && strings.HasPrefix(k, t.Glob) {
					allowed = true
				}
			}
			if allowed {
				vc.havoc(st, k)
			}
			continue
		}
		nw := vc.havoc(st, k)
		r := Term{"r!q", SInt}
		var exc []Term
		for _, t := range targets {
			if t.Glob != "" {
				continue
			}
			if strings.HasPrefix(k, t.Root+"|"+t.Path) || (strings.HasPrefix(t.Root, "M|") && mapCompOf(k) == t.Root[2:]) {
				if t.Any {
					exc = append(exc, True)
				} else {
					exc = append(exc, Eq(r, t.Base))
				}
			}
		}
		guard := And(Lt(r, pre.alloc), Not(Or(exc...)))
		vc.fact(Forall([]Term{r}, Imp(guard, Eq(Select(nw, r), Select(old, r))), []Term{Select(nw, r)}))
		if len(exc) > 0 {
			st.markDirty(k)
		} else if !st.dirty[k] {
			// k has not been written at pre-existing objects since function
			// entry: relate the new version directly to the entry version
			// (shortens frame chains across many calls)
			ent := vc.get(f.rootFrame().entry, k)
			if ent.S != old.S {
				vc.fact(Forall([]Term{r}, Imp(Lt(r, vc.A0), Eq(Select(nw, r), Select(ent, r))), []Term{Select(nw, r)}))
			}
		}
	}
	if mods.alloc {
		a := vc.fresh("A", SInt)
		vc.fact(Ge(a, pre.alloc))
		st.alloc = a
		f.kindFacts(st, pre.alloc, mods)
		// objects allocated by the callee: handed over by an owning callee,
		// otherwise unreachable garbage from the caller's point of view
		vc.registerComp("Mine", SArr(SInt, SBool))
		mn := vc.get(st, "Mine")
		r := Term{"r!q", SInt}
		if owns {
			vc.fact(Forall([]Term{r}, Imp(Ge(r, pre.alloc), Eq(Select(mn, r), Lt(r, st.alloc))), []Term{Select(mn, r)}))
		} else {
			vc.fact(Forall([]Term{r}, Imp(Ge(r, pre.alloc), Not(Select(mn, r))), []Term{Select(mn, r)}))
		}
	}
	f.closedFacts(st, names)
	if owns {
		// an owning callee returns a closed fresh region: objects it allocated
		// hold only references to objects it allocated (or nil)
		for _, k := range names {
			if !isRefComp(k) {
				continue
			}
			c := vc.get(st, k)
			r := Term{"r!q", SInt}
			in := And(Le(pre.alloc, r), Lt(r, st.alloc))
			fr := func(e Term) Term { return Or(Eq(e, Zero), Ge(e, pre.alloc)) }
			switch {
			case strings.HasPrefix(k, "E|"):
				j := Term{"j!q", SInt}
				e := Select(Select(c, r), j)
				vc.fact(Forall([]Term{r, j}, Imp(in, fr(e)), []Term{e}))
			case strings.HasPrefix(k, "Mv|"):
				kk := Term{"k!q", c.Sort.V.K}
				e := Select(Select(c, r), kk)
				vc.fact(Forall([]Term{r, kk}, Imp(in, fr(e)), []Term{e}))
			default:
				e := Select(c, r)
				vc.fact(Forall([]Term{r}, Imp(in, fr(e)), []Term{e}))
			}
		}
	}
}

// ---- dynamic calls ----

func (f *Frame) dynamicCall(st *State, x *ssa.Call, c *ssa.CallCommon, args []Val, resultType types.Type, pos token.Pos) {
	vc := f.vc
	setResult := func(v Val) {
		if x != nil {
			f.vals[x] = v
		}
	}
	if c.IsInvoke() {
		recv := f.val(c.Value)
		f.oblige(st, "SAFE", "method call on nil interface ("+c.Method.Name()+")", pos, Ne(recv.L[0], Zero))
		if is := vc.eng.specs.ifaceSpec(c.Value.Type(), c.Method.Name()); is != nil {
			vc.usedSpec[is.Name] = true
			setResult(f.specOnlyCall(st, is, append([]Val{recv}, args...), c.Signature(), resultType, pos))
			return
		}
		if ext := vc.eng.extInvoke(c); ext != nil {
			vc.usedExt[ext.name] = true
			setResult(ext.apply(f, st, c, append([]Val{recv}, args...), resultType, pos))
			return
		}
		f.unsupported("invoke %s.%s without interface contract", typeKey(c.Value.Type()), c.Method.Name())
		setResult(vc.freshVal("inv", resultType))
		return
	}
	fv := f.val(c.Value)
	f.oblige(st, "SAFE", "call of nil function value", pos, Ne(fv.one(), Zero))
	if ts := vc.eng.specs.funcTypeSpec(c.Value.Type()); ts != nil {
		vc.usedSpec[ts.Name] = true
		setResult(f.specOnlyCall(st, ts, args, c.Signature(), resultType, pos))
		return
	}
	f.unsupported("dynamic call of %s without function-type contract", typeKey(c.Value.Type()))
	setResult(vc.freshVal("dyn", resultType))
}

// specOnlyCall applies a contract that has no body in scope (interface method
// or function type).
func (f *Frame) specOnlyCall(st *State, spec *FuncSpec, args []Val, sig *types.Signature, resultType types.Type, pos token.Pos) Val {
	vc := f.vc
	env := &SpecEnv{f: f, spec: spec, params: map[string]Val{}, pre: st.clone()}
	for i, n := range spec.ParamNames {
		if i < len(args) {
			env.params[n] = args[i]
		}
	}
	f.holdsCheck(st, spec, spec.Name, pos)
	for _, r := range spec.Requires {
		f.oblige(st, "PRE", "call "+spec.Name+" requires "+r.Text, pos, env.evalBool(r.Expr, env.pre, nil))
	}
	pre := env.pre
	targets := env.assignTargets(spec, pre)
	if f.frameOn() {
		for _, t := range targets {
			if t.Glob != "" {
				f.oblige(st, "FRAME", "call "+spec.Name+" assigns package variable "+t.Glob, pos, f.assignsAllow(t.Glob, Zero))
				continue
			}
			f.oblige(st, "FRAME", "call "+spec.Name+" assigns "+t.Text, pos, Or(Ge(t.Base, vc.A0), Eq(t.Base, Zero), f.assignsAllow(t.Root+"|"+t.Path, t.Base)))
		}
	}
	f.havocCall(st, pre, vc.eng.specMods(spec), targets, spec.Owns)
	var results []Val
	res := sig.Results()
	for i := 0; i < res.Len(); i++ {
		v := vc.freshVal("res_"+sanitize(spec.Name), res.At(i).Type())
		f.assumeWF(st, v)
		results = append(results, v)
	}
	env.results = results
	for _, e := range spec.Ensures {
		if skipLabel(e.Label) {
			continue
		}
		vc.fact(Imp(st.reach, env.evalBool(e.Expr, st, pre)))
	}
	if f.ownOn() {
		for _, t := range targets {
			if t.Glob == "" {
				f.ownAfterCall(st, t, spec.Name, pos)
			}
		}
	}
	return packResults(resultType, results)
}

func (f *Frame) String() string { return fmt.Sprintf("frame(%s)", f.fname) }

// kindFacts: objects allocated since lo have one of the kinds the code can
// allocate (a fact about the code's Alloc/make/append sites).
func (f *Frame) kindFacts(st *State, lo Term, mods *ModSet) {
	vc := f.vc
	vc.registerComp("Ty", SArr(SInt, SInt))
	ty := vc.get(st, "Ty")
	r := Term{"r!q", SInt}
	var alts []Term
	var ks []string
	for k := range mods.kinds {
		ks = append(ks, k)
	}
	sort.Strings(ks)
	for _, k := range ks {
		alts = append(alts, Eq(Select(ty, r), vc.kindTag(k)))
	}
	if mods.all {
		return
	}
	vc.fact(Forall([]Term{r}, Imp(And(Le(lo, r), Lt(r, st.alloc)), Or(alts...)), []Term{Select(ty, r)}))
}

// holdsCheck: a callee whose contract says "holds L" must be called with L held.
func (f *Frame) holdsCheck(st *State, spec *FuncSpec, cname string, pos token.Pos) {
	for _, h := range spec.Holds {
		held, ok := st.ghost["lock:"+h]
		if !ok {
			held = Zero
		}
		f.oblige(st, "LOCK", "call "+cname+" requires lock "+h+" held", pos, Ge(held, One))
	}
}
