package main

import (
	"encoding/json"
	"flag"
	"fmt"
	"os"
	"path/filepath"
	"sort"
	"strconv"
	"strings"
	"time"
)

// PropDef says which obligation classes decide a property.
type PropDef struct {
	Classes []string
	Level   string
	Note    string
	// Skip: labels (prefixes) of callee postconditions that are not assumed at
	// call sites while this property is checked (they belong to other
	// properties and only enlarge the queries; leaving an assumption out is sound)
	Skip []string
}

var graphSetPosts = []string{"C09:add:", "C09:union:", "C10:", "C08:add:", "C08:union:", "C08:intersect:", "C08:remove:", "C12:copy:", "C08:indexNodes:", "C08:indexRoots:", "C08:idx", "C15:", "C12:inv", "C03:inv", "C01:inv", "C16:inv", "C16:roots:", "C16:purlType:", "C16:match:", "C16:hashIndex:", "C16:purlIndex:", "C08:inv", "C09:inv", "C10:inv", "C08:cleanEdges:closedFrom", "C08:cleanEdges:closedTo", "C08:cleanEdges:oneEdgePerSourceAndType", "C08:cleanEdges:noRepeatedTargets"}

var propDefs = map[string]PropDef{
	"C01": {Classes: []string{"TABLE", "LEMMA", "POST", "INV", "PRE"}, Level: "proof"},
	"C02": {Classes: []string{"TABLE", "LEMMA", "POST", "INV", "PRE"}, Level: "proof"},
	"C03": {Classes: []string{"LEMMA", "POST", "INV", "PRE"}, Level: "proof", Skip: []string{"C01:inv"}},
	"C04": {Classes: []string{"SAFE", "POST", "PRE", "INV", "OWN"}, Level: "proof", Skip: graphSetPosts},
	"C05": {Classes: []string{"POST", "LEMMA", "INV", "PRE"}, Level: "proof"},
	"C06": {Classes: []string{"TABLE", "LEMMA", "POST", "TRACE", "PRE", "INV"}, Level: "proof"},
	"C07": {Classes: []string{"SAFE", "PRE", "INV", "FRAME"}, Level: "proof", Skip: graphSetPosts},
	"C08": {Classes: []string{"POST", "INV", "PRE", "LEMMA"}, Level: "proof"},
	"C09": {Classes: []string{"POST", "INV", "PRE", "LEMMA"}, Level: "proof"},
	"C10": {Classes: []string{"POST", "INV", "PRE", "LEMMA"}, Level: "proof"},
	"C11": {Classes: []string{"FRAME"}, Level: "proof", Skip: graphSetPosts},
	"C12": {Classes: []string{"OWN", "POST", "INV"}, Level: "proof", Skip: without(graphSetPosts, "C12:inv", "C12:copy:")},
	"C13": {Classes: []string{"POST", "LEMMA", "PRE", "INV", "READS"}, Level: "proof"},
	"C14": {Classes: []string{"POST", "INV", "PRE", "LEMMA", "READS"}, Level: "proof", Skip: graphSetPosts},
	"C15": {Classes: []string{"SAFE", "POST", "INV", "PRE", "LEMMA"}, Level: "proof"},
	"C16": {Classes: []string{"POST", "INV", "PRE", "LEMMA"}, Level: "proof", Skip: without(graphSetPosts, "C16:inv", "C16:roots:", "C16:purlType:", "C16:match:", "C16:hashIndex:", "C16:purlIndex:")},
	"C17": {Classes: []string{"LOCK"}, Level: "proof"},
	"C18": {Classes: []string{"FRAME", "POST", "PRE", "OWN", "LEMMA"}, Level: "proof"},
	"C19": {Classes: []string{"SAFE", "POST", "PRE", "TRACE", "LEMMA"}, Level: "proof"},
	"C20": {Classes: []string{"TRACE", "POST", "PRE", "LEMMA"}, Level: "proof"},
}

// Finding is an entry of /verif/known_findings.json.
type Finding struct {
	Property   string `json:"property"`
	Obligation string `json:"obligation"`
	Status     string `json:"status"` // known | fixed
	What       string `json:"what"`
	Commit     string `json:"commit,omitempty"`
	Witness    string `json:"witness,omitempty"`
}

func loadFindings(path string) []Finding {
	data, err := os.ReadFile(path)
	if err != nil {
		return nil
	}
	var fs struct {
		Findings []Finding `json:"findings"`
	}
	if json.Unmarshal(data, &fs) != nil {
		return nil
	}
	return fs.Findings
}

// belongs decides whether obligation o counts for property prop.
func belongs(o *Obl, prop string, classes map[string]bool) bool {
	if o.Class == "COVER" {
		return true
	}
	if !classes[o.Class] {
		return false
	}
	// labelled POST/LEMMA obligations: "Cxx:..." restricts to that property
	d := o.Detail
	if len(d) > 4 && d[0] == 'C' && d[3] == ':' {
		if _, err := strconv.Atoi(d[1:3]); err == nil {
			return strings.HasPrefix(d, prop+":")
		}
	}
	return true
}

type Evidence struct {
	PropertyID  string         `json:"property_id"`
	Tier        string         `json:"tier"`
	Seed        int            `json:"seed"`
	Level       string         `json:"level"`
	Coverage    map[string]any `json:"coverage"`
	Assumptions []string       `json:"assumptions"`
	WallS       float64        `json:"wall_s"`
	Violations  int            `json:"violations"`
}

func cmdCheck(args []string) int {
	fs := flag.NewFlagSet("check", flag.ExitOnError)
	repo := fs.String("repo", "/repo", "")
	replayBase := fs.String("replay-dir", "", "directory for replay files (default <verif>/replays)")
	verif := fs.String("verif", "/verif", "")
	prop := fs.String("property", "", "")
	tier := fs.String("tier", "quick", "")
	overlayFile := fs.String("overlay", "", "JSON file {path: replacement file} applied to /repo sources (self-test)")
	noEvidence := fs.Bool("no-evidence", false, "")
	fs.Parse(args)
	if t := os.Getenv("VERIF_TIER"); t != "" && *tier == "" {
		*tier = t
	}
	seed, _ := strconv.Atoi(os.Getenv("VERIF_SEED"))
	t0 := time.Now()
	pd, ok := propDefs[*prop]
	skipLabels = pd.Skip
	curProp = *prop
	if !ok {
		fmt.Fprintln(os.Stderr, "unknown property", *prop)
		return 2
	}
	var overlay map[string][]byte
	if *overlayFile != "" {
		overlay = readOverlay(*overlayFile)
	}
	eng := mustEngine(*repo, filepath.Join(*verif, "contracts"), overlay)
	classes := map[string]bool{"CAND": true, "COVER": true}
	for _, c := range pd.Classes {
		classes[c] = true
	}
	// functions under contract for this property
	var keys []string
	for k, s := range eng.specs.funcs {
		for _, p := range s.Props {
			if p == *prop {
				keys = append(keys, k)
			}
		}
	}
	sort.Strings(keys)
	var vcs []*VC
	var missing []string
	for _, k := range keys {
		fn := eng.funcs[k]
		if fn == nil {
			// a contract on a generic function: every instantiation is verified
			var insts []string
			for fk := range eng.funcs {
				if strings.HasPrefix(fk, k+"[") {
					insts = append(insts, fk)
				}
			}
			sort.Strings(insts)
			for _, fk := range insts {
				vcs = append(vcs, eng.verifyFunc(eng.funcs[fk], classes))
			}
			if len(insts) > 0 {
				continue
			}
		}
		if fn == nil || fn.Blocks == nil {
			missing = append(missing, k)
			continue
		}
		vcs = append(vcs, eng.verifyFunc(fn, classes))
	}
	nLemmas := 0
	for _, l := range eng.specs.lemmas {
		for _, p := range l.Props {
			if p == *prop {
				vcs = append(vcs, eng.verifyLemma(l))
				nLemmas++
			}
		}
	}
	timeout := 10
	if *tier == "thorough" {
		timeout = 60
	}
	dir, _ := os.MkdirTemp("", "govc-"+*prop+"-")
	defer os.RemoveAll(dir)
	stats := newStats()
	cands, kept := solveAll(vcs, SolveOpts{TimeoutS: timeout, AllSolvers: *tier == "thorough", Retry: *tier != "thorough", Dir: dir}, stats)

	findings := loadFindings(filepath.Join(*verif, "known_findings.json"))
	known := map[string]Finding{}
	for _, f := range findings {
		if f.Property == *prop && f.Status == "known" {
			known[f.Obligation] = f
		}
	}
	replayDir := filepath.Join(*verif, "replays", *prop)
	if *replayBase != "" {
		replayDir = filepath.Join(*replayBase, *prop)
	}
	os.MkdirAll(replayDir, 0o755)

	total, discharged, violations := 0, 0, 0
	byClass := map[string]int{}
	byBackend := map[string]int{}
	samples := []map[string]any{}
	knownHit := []string{}
	fnames := []string{}
	trusted := map[string]bool{}
	inlined := map[string]bool{}
	specsUsed := map[string]bool{}
	var lines []string
	for _, k := range missing {
		// contract does not bind: fail closed
		total++
		violations++
		rp := writeReplay(replayDir, *prop, &Obl{Name: k + "/BIND", Class: "BIND", Status: "unbound", Output: "contract names a function that does not exist in /repo (or has no body)"}, nil)
		lines = append(lines, fmt.Sprintf("VIOLATION property=%s replay=%s no-failing-input-found", *prop, rp))
	}
	for _, vc := range vcs {
		for _, u := range vc.unsup {
			fmt.Fprintf(os.Stderr, "  outside subset / engine limit in %s: %s\n", vc.name, u)
		}
		fnames = append(fnames, vc.name)
		for n := range vc.usedExt {
			if x := eng.ext[n]; x != nil {
				trusted[x.doc] = true
			} else if x := eng.extMethods[n]; x != nil {
				trusted[x.doc] = true
			}
		}
		for n := range vc.inlined {
			inlined[n] = true
		}
		for n := range vc.usedSpec {
			specsUsed[n] = true
		}
		for _, o := range vc.obls {
			if o.Class == "CAND" || !(belongs(o, *prop, classes) || frameDuty(vc, o)) {
				continue
			}
			total++
			byClass[o.Class]++
			if o.discharged() {
				discharged++
				byBackend[o.Backend]++
				if len(samples) < 12 && o.Class != "COVER" {
					samples = append(samples, map[string]any{"obligation": o.Name, "class": o.Class, "backend": o.Backend, "ms": o.Ms, "smt_sha256_8": o.Hash, "at": o.Pos})
				}
				continue
			}
			if kf, ok := known[o.Name]; ok {
				knownHit = append(knownHit, o.Name)
				lines = append(lines, fmt.Sprintf("KNOWN-FINDING: property=%s %s — %s", *prop, o.Name, kf.What))
				continue
			}
			violations++
			rp, confirmed := replayObligation(eng, vc, o, *prop, replayDir, *repo)
			if confirmed {
				lines = append(lines, fmt.Sprintf("VIOLATION property=%s replay=%s", *prop, rp))
			} else {
				lines = append(lines, fmt.Sprintf("VIOLATION property=%s replay=%s no-failing-input-found", *prop, rp))
			}
			fmt.Fprintf(os.Stderr, "  undischarged: %s [%s] status=%s %s\n", o.Name, o.Pos, o.Status, truncate(o.Output, 200))
		}
	}
	// vacuity: obligation floor from the contract files
	if floor, ok := eng.specs.expectFloor(*prop); ok && total < floor {
		violations++
		rp := writeReplay(replayDir, *prop, &Obl{Name: *prop + "/VACUITY", Class: "VACUITY", Status: "too-few-obligations",
			Output: fmt.Sprintf("%d obligations generated, contract files expect at least %d", total, floor)}, nil)
		lines = append(lines, fmt.Sprintf("VIOLATION property=%s replay=%s no-failing-input-found", *prop, rp))
	}
	if total == 0 {
		violations++
		rp := writeReplay(replayDir, *prop, &Obl{Name: *prop + "/VACUITY", Class: "VACUITY", Status: "no-obligations", Output: "no obligation generated"}, nil)
		lines = append(lines, fmt.Sprintf("VIOLATION property=%s replay=%s no-failing-input-found", *prop, rp))
	}
	for _, l := range lines {
		fmt.Println(l)
	}
	wall := time.Since(t0).Seconds()
	fmt.Printf("property=%s tier=%s obligations=%d discharged=%d known-findings=%d violations=%d functions=%d lemmas=%d candidates=%d/%d wall=%.1fs\n",
		*prop, *tier, total, discharged, len(knownHit), violations, len(vcs)-nLemmas, nLemmas, kept, cands, wall)

	if !*noEvidence {
		tb := []string{}
		for d := range trusted {
			tb = append(tb, d)
		}
		sort.Strings(tb)
		inl := []string{}
		for d := range inlined {
			inl = append(inl, d)
		}
		sort.Strings(inl)
		su := []string{}
		for d := range specsUsed {
			su = append(su, d)
		}
		sort.Strings(su)
		sort.Strings(fnames)
		sort.Strings(knownHit)
		level := pd.Level
		cov := map[string]any{
			// obligations counts the obligations that are expected to hold: all
			// generated obligations of the property minus those listed as known
			// findings (reported separately, never counted as discharged)
			"obligations":              total - len(knownHit),
			"discharged":               discharged,
			"obligations_generated":    total,
			"undischarged_known":       len(knownHit),
			"checker_cmd":              fmt.Sprintf("bin/govc check --property %s --tier %s", *prop, *tier),
			"trusted_base":             tb,
			"functions_under_contract": fnames,
			"contracts_used":           su,
			"transparent_callees":      inl,
			"by_class":                 byClass,
			"by_backend":               byBackend,
			"solver_time_s":            stats.Secs,
			"solver_queries":           stats.Queries,
			"houdini_candidates":       cands,
			"houdini_kept":             kept,
			"known_findings":           knownHit,
			"samples":                  samples,
			"contract_files":           eng.specs.sourceList(),
			"front_end_s":              eng.loadSecs,
			"lemmas":                   nLemmas,
			"explanation":              "deductive verification: per-function VCs generated from go/ssa of /repo's working tree, discharged by SMT; counts are obligations of this property only",
		}
		if len(knownHit) > 0 {
			cov["explanation"] = fmt.Sprintf("%d obligations generated; %d are listed known findings (genuine defects, still failing, see known_findings.json) and are excluded from 'obligations'; the remaining %d are discharged deductively (unbounded)", total, len(knownHit), discharged)
		}
		if discharged < total-len(knownHit) {
			// proof-level evidence must have discharged == obligations
			level = "other"
			cov["explanation"] = fmt.Sprintf("%d of %d obligations discharged; %d undischarged are listed known findings, %d are violations", discharged, total, len(knownHit), violations)
		}
		ev := Evidence{PropertyID: *prop, Tier: *tier, Seed: seed, Level: level, Coverage: cov, WallS: wall, Violations: violations,
			Assumptions: baseAssumptions(eng)}
		os.MkdirAll(filepath.Join(*verif, "evidence"), 0o755)
		data, _ := json.MarshalIndent(ev, "", " ")
		os.WriteFile(filepath.Join(*verif, "evidence", *prop+".json"), append(data, '\n'), 0o644)
	}
	if violations > 0 {
		return 1
	}
	return 0
}

func baseAssumptions(eng *Engine) []string {
	a := []string{
		"machine integers are mathematical integers (no overflow obligations)",
		"go/ssa (x/tools v0.29.0) lowering and the Go compiler are trusted",
		"map iteration order is fully nondeterministic",
		"methods are called on non-nil pointer receivers (checked at every call site inside the verified code)",
		"slices created outside the verified code have offset 0 in their backing array; distinct operand slices do not overlap (separated)",
		"protobuf bookkeeping fields (state, sizeCache, unknownFields) are outside the abstract content of a message",
		"memory exhaustion and stack depth are not modelled",
		"string contents: only equality, concatenation, prefix/contains are interpreted; byte indexing and conversions are uninterpreted functions",
		"loop-free unexported helpers without a contract are transparent (unfolded at the call site); every other callee is used through its contract",
		"a callee's assigns clause is assumed at its call sites; it is checked (FRAME) where the callee is listed under C07, C11 or C18 or says assigns \\nothing, and is an unchecked assumption for the remaining contracts",
		"in a function whose contract says assigns \\nothing, objects that existed at entry are read in their entry state; this rests on the function's FRAME obligations (counted in this run unless C07/C11/C18 lists the function)",
		"zero-length allocations get distinct references in the model (Go may share them); no obligation depends on writing through such an array",
		"set views (elems, fieldset, imageset) are uninterpreted functions constrained by sound instances of their inductive definition (including: a member of elems(s) contributes its field to fieldset(s, f)); inverse membership (a member sits at some index) is instantiated only for the appended row of a slice append, nowhere else",
		"shadow functions are defined only at the arguments where the real body was evaluated (state-independent functions, checked syntactically)",
		"READS obligations are decided on the SSA of the function body (a load of the field exists), not by SMT",
		"existence in the model of third-party results: decoders and encoders return arbitrary well-typed values and are assumed total",
		"map sizes and key domains agree (a key implies len >= 1, two distinct keys imply len >= 2, len >= 1 / len >= 2 yield one / two distinct keys): runtime facts the size counter of the model satisfies on every path, assumed where len(map) is read",
		"ghost function idowner(list, id) is uninterpreted: a precondition 'every entry p satisfies idowner(list, p.Id) == p' has a model exactly when identifiers identify the entries",
	}
	for _, t := range eng.specs.typeinvTexts() {
		a = append(a, "input messages satisfy type invariant: "+t)
	}
	return a
}

func readOverlay(path string) map[string][]byte {
	data, err := os.ReadFile(path)
	if err != nil {
		fmt.Fprintln(os.Stderr, "overlay:", err)
		os.Exit(3)
	}
	var m map[string]string
	if err := json.Unmarshal(data, &m); err != nil {
		fmt.Fprintln(os.Stderr, "overlay:", err)
		os.Exit(3)
	}
	out := map[string][]byte{}
	for k, v := range m {
		b, err := os.ReadFile(v)
		if err != nil {
			fmt.Fprintln(os.Stderr, "overlay:", err)
			os.Exit(3)
		}
		out[k] = b
	}
	return out
}

func safeName(s string) string {
	var b strings.Builder
	for _, r := range s {
		if (r >= 'a' && r <= 'z') || (r >= 'A' && r <= 'Z') || (r >= '0' && r <= '9') || r == '.' || r == '-' || r == '_' {
			b.WriteRune(r)
		} else {
			b.WriteByte('_')
		}
	}
	out := b.String()
	if len(out) > 150 {
		out = out[:150]
	}
	return out
}

func writeReplay(dir, prop string, o *Obl, extra map[string]any) string {
	m := map[string]any{
		"property":      prop,
		"obligation":    o.Name,
		"class":         o.Class,
		"at":            o.Pos,
		"status":        o.Status,
		"backend":       o.Backend,
		"solver_output": o.Output,
		"answers":       o.Extra["answers"],
	}
	for k, v := range extra {
		m[k] = v
	}
	data, _ := json.MarshalIndent(m, "", " ")
	path := filepath.Join(dir, safeName(o.Name)+".json")
	os.WriteFile(path, append(data, '\n'), 0o644)
	return path
}

func (db *SpecDB) sourceList() []string {
	var out []string
	for _, f := range db.files {
		out = append(out, f+" ("+db.source[f]+")")
	}
	return out
}

func (db *SpecDB) expectFloor(prop string) (int, bool) {
	n, ok := db.expect["prop:"+prop]
	return n, ok
}

// skipLabels: see PropDef.Skip.
var skipLabels []string

// curProp: the property being checked ("" outside `govc check`).
var curProp string

// invGroup: properties that share the loop invariants written for any of them
// (the graph-set contracts of Union/Intersect/Add/cleanEdges serve C08, C09 and
// C10 together; the SPDX builder invariants serve C01 and C03).
var invGroup = map[string]string{"C08": "graph", "C09": "graph", "C10": "graph", "C01": "spdx", "C03": "spdx"}

func groupOf(p string) string {
	if g, ok := invGroup[p]; ok {
		return g
	}
	return p
}

func skipLabel(label string) bool {
	if curProp != "" && len(label) >= 7 && label[0] == 'C' && label[3] == ':' {
		// loop invariants written for one property (group) are generated only in
		// the runs of that group
		if (strings.HasPrefix(label[3:], ":inv") || strings.HasPrefix(label[3:], ":idx")) && groupOf(label[:3]) != groupOf(curProp) {
			return true
		}
	}
	for _, p := range skipLabels {
		if strings.HasPrefix(label, p) {
			return true
		}
	}
	return false
}

func without(list []string, drop ...string) []string {
	var out []string
	for _, x := range list {
		keep := true
		for _, d := range drop {
			if x == d {
				keep = false
			}
		}
		if keep {
			out = append(out, x)
		}
	}
	return out
}

// frameDuty: the entry-version reads of an "assigns \nothing" function rest on
// its FRAME obligations.  When no property that owns the FRAME class lists the
// function, these obligations are counted in every property run that verifies it.
func frameDuty(vc *VC, o *Obl) bool {
	return o.Class == "FRAME" && vc.pureFrame && !vc.frameOwned
}
