package main

import (
	"go/token"
	"go/types"
	"strings"
)

// rootFrame returns the outermost activation (whose contract governs FRAME/OWN).
func (f *Frame) rootFrame() *Frame {
	for f.parent != nil {
		f = f.parent
	}
	return f
}

// AssignTarget is one location set listed in an assigns clause, evaluated in
// the pre-state of the root function.
type AssignTarget struct {
	Text  string
	Base  Term   // object / array / map reference
	Root  string // component root "H|T" / "E|T" / "Md|T" ...
	Path  string // path prefix ("" = every field)
	Glob  string // global variable component prefix
	Cond  Term   // optional guard
	Whole bool   // every component rooted at Base's object type
	Any   bool   // any object of the kind (anyelems(T)): the base is not constrained
}

func (f *Frame) assignsAllow(comp string, base Term) Term {
	rf := f.rootFrame()
	var alts []Term
	for _, a := range rf.assignTargets {
		if a.Glob != "" {
			if strings.HasPrefix(comp, a.Glob) {
				alts = append(alts, True)
			}
			continue
		}
		if !strings.HasPrefix(comp, a.Root+"|"+a.Path) {
			// maps: Md|T, Mv|T|..., Ms|T share the type key
			if !(strings.HasPrefix(a.Root, "M|") && mapCompOf(comp) == a.Root[2:]) {
				continue
			}
		}
		if a.Any {
			alts = append(alts, True)
			continue
		}
		alts = append(alts, Eq(base, a.Base))
	}
	return Or(alts...)
}

func mapCompOf(comp string) string {
	for _, p := range []string{"Md|", "Ms|", "Mv|"} {
		if strings.HasPrefix(comp, p) {
			rest := comp[len(p):]
			if p == "Mv|" {
				if i := strings.LastIndex(rest, "|"); i >= 0 {
					rest = rest[:i]
				}
			}
			return rest
		}
	}
	return ""
}

func (f *Frame) frameOn() bool {
	rf := f.rootFrame()
	return rf.hasAssigns && f.vc.want("FRAME")
}

// frameCheck emits the FRAME obligation for a write to loc.
func (f *Frame) frameCheck(st *State, loc *Loc, pos token.Pos, what string) {
	if !f.frameOn() {
		return
	}
	vc := f.vc
	comps := compsOfLoc(loc)
	if len(comps) == 0 {
		return
	}
	switch loc.Kind {
	case LGlobal:
		allow := f.assignsAllow(comps[0], Zero)
		f.oblige(st, "FRAME", what+" to package variable "+loc.Root[2:]+loc.Path, pos, allow)
	case LObj, LElem:
		kind := "visible"
		goal := Or(Ge(loc.Base, vc.A0), f.assignsAllow(comps[0], loc.Base))
		f.oblige(st, "FRAME", what+" "+kind+" "+loc.Root+loc.Path, pos, goal)
	}
}

func (f *Frame) frameCheckRef(st *State, ref Term, comp string, pos token.Pos, what string) {
	if !f.frameOn() {
		return
	}
	goal := Or(Ge(ref, f.vc.A0), Eq(ref, Zero), f.assignsAllow(comp, ref))
	f.oblige(st, "FRAME", what+" visible "+comp, pos, goal)
}

// frameAppend: the in-place branch of append writes spare capacity of s.arr.
func (f *Frame) frameAppend(st *State, s Val, n Term, inPlace Term, pos token.Pos) {
	if !f.frameOn() {
		return
	}
	comp := compElem(elemOf(s.T), "")
	goal := Imp(And(inPlace, Gt(n, Zero)), Or(Ge(s.arr(), f.vc.A0), f.assignsAllow(comp, s.arr())))
	f.oblige(st, "FRAME", "append capacity E|"+typeKey(elemOf(s.T)), pos, goal)
}

func (f *Frame) ownOn() bool {
	rf := f.rootFrame()
	return rf.owns && f.vc.want("OWN")
}

// ownKinds: allocation kinds type-reachable from the root function's results.
// A store into an object of another kind (a local index map, a scratch
// slice) cannot make a pre-existing object reachable from the result.
func (f *Frame) ownKinds() map[string]bool {
	rf := f.rootFrame()
	if rf.resKinds != nil {
		return rf.resKinds
	}
	rf.resKinds = map[string]bool{}
	seen := map[string]bool{}
	var walk func(t types.Type)
	walk = func(t types.Type) {
		k := types.TypeString(t, nil)
		if seen[k] {
			return
		}
		seen[k] = true
		switch u := t.Underlying().(type) {
		case *types.Pointer:
			rf.resKinds[kindOfPtr(t)] = true
			walk(u.Elem())
		case *types.Slice:
			rf.resKinds["E|"+typeKey(u.Elem())] = true
			walk(u.Elem())
		case *types.Array:
			walk(u.Elem())
		case *types.Map:
			rf.resKinds["M|"+typeKey(t)] = true
			walk(u.Key())
			walk(u.Elem())
		case *types.Struct:
			for i := 0; i < u.NumFields(); i++ {
				if !isProtoInternalField(u.Field(i)) {
					walk(u.Field(i).Type())
				}
			}
		case *types.Interface:
			if t.String() == "error" {
				return // error values are immutable
			}
			rf.resKinds["*"] = true // anything may hide behind an interface
		}
	}
	res := rf.fn.Signature.Results()
	for i := 0; i < res.Len(); i++ {
		walk(res.At(i).Type())
	}
	return rf.resKinds
}

// paramKinds: allocation kinds type-reachable from the root function's
// parameters (what its operands can consist of).
func (f *Frame) paramKinds() map[string]bool {
	rf := f.rootFrame()
	if rf.parKinds != nil {
		return rf.parKinds
	}
	rf.parKinds = map[string]bool{}
	seen := map[string]bool{}
	var walk func(t types.Type)
	walk = func(t types.Type) {
		k := types.TypeString(t, nil)
		if seen[k] {
			return
		}
		seen[k] = true
		switch u := t.Underlying().(type) {
		case *types.Pointer:
			rf.parKinds[kindOfPtr(t)] = true
			walk(u.Elem())
		case *types.Slice:
			rf.parKinds["E|"+typeKey(u.Elem())] = true
			walk(u.Elem())
		case *types.Array:
			walk(u.Elem())
		case *types.Map:
			rf.parKinds["M|"+typeKey(t)] = true
			walk(u.Key())
			walk(u.Elem())
		case *types.Struct:
			for i := 0; i < u.NumFields(); i++ {
				if !isProtoInternalField(u.Field(i)) {
					walk(u.Field(i).Type())
				}
			}
		case *types.Interface:
			if t.String() != "error" && u.NumMethods() == 0 {
				// an empty interface can hold anything
				for k := range rf.vc.comps {
					if kk := kindOfComp(k); kk != "" {
						rf.parKinds[kk] = true
					}
				}
				rf.parKinds["*"] = true
			}
		case *types.Signature:
			rf.parKinds["*"] = true
		}
	}
	for _, p := range rf.fn.Params {
		if refs := p.Referrers(); refs != nil && len(*refs) == 0 {
			continue // unused parameter
		}
		walk(p.Type())
	}
	return rf.parKinds
}

func (f *Frame) ownRelevant(kind string) bool {
	ks := f.ownKinds()
	return ks["*"] || ks[kind]
}

func isMutableRefLeaf(l Leaf) bool {
	if !l.Ref {
		return false
	}
	switch l.T.Underlying().(type) {
	case *types.Pointer, *types.Map, *types.Slice:
		return true
	}
	return false
}

func (f *Frame) freshOrNilVal(v Val) Term {
	var cs []Term
	for i, l := range layout(v.T) {
		if isMutableRefLeaf(l) {
			cs = append(cs, Or(Eq(v.L[i], Zero), Ge(v.L[i], f.vc.A0)))
		}
	}
	return And(cs...)
}

// ownCheck: storing a reference into a fresh object must not capture a
// pre-existing mutable object.
func (f *Frame) ownCheck(st *State, loc *Loc, v Val, pos token.Pos, what string) {
	if !f.ownOn() || loc.Kind == LGlobal {
		return
	}
	g := f.freshOrNilVal(v)
	if g.S == "true" || !f.ownRelevant(loc.Root) {
		return
	}
	f.oblige(st, "OWN", what+" into fresh "+loc.Root+loc.Path, pos, Imp(Ge(loc.Base, f.vc.A0), g))
}

func (f *Frame) ownCheckVal(st *State, target Term, v Val, pos token.Pos, what string, kind string) {
	if !f.ownOn() || !f.ownRelevant(kind) {
		return
	}
	g := f.freshOrNilVal(v)
	if g.S == "true" {
		return
	}
	f.oblige(st, "OWN", what+" into fresh container", pos, Imp(Ge(target, f.vc.A0), g))
}

// ownAppend: elements appended into a fresh (or freshly reallocated) array.
func (f *Frame) ownAppend(st *State, out, s, t Val, pos token.Pos) {
	if !f.ownOn() {
		return
	}
	vc := f.vc
	el := elemOf(s.T)
	var refLeaves []int
	for i, l := range layout(el) {
		if isMutableRefLeaf(l) {
			refLeaves = append(refLeaves, i)
		}
	}
	if len(refLeaves) == 0 || !f.ownRelevant("E|"+typeKey(el)) {
		return
	}
	lay := layout(el)
	for _, i := range refLeaves {
		name := compElem(el, lay[i].Suffix)
		c := vc.get(st, name)
		j := Term{"j!q", SInt}
		e := Select(Select(c, out.arr()), j)
		body := Imp(And(Le(Zero, j), Lt(j, out.len())), Or(Eq(e, Zero), Ge(e, vc.A0)))
		goal := Imp(Ge(out.arr(), vc.A0), Forall([]Term{j}, body, []Term{e}))
		f.oblige(st, "OWN", "append elements into fresh E|"+typeKey(el)+lay[i].Suffix, pos, goal)
	}
}

// ownReturn: results of an owning function are fresh or nil.
func (f *Frame) ownReturn(st *State, vals []Val, pos token.Pos) {
	if !f.ownOn() || f.parent != nil {
		return
	}
	for _, v := range vals {
		g := f.freshOrNilVal(v)
		if g.S != "true" {
			f.oblige(st, "OWN", "result is fresh", pos, g)
		}
	}
}

// ---- LOCK (ghost lockset) ----

func (f *Frame) lockCheck(st *State, loc *Loc, write bool, pos token.Pos) {
	if loc.Kind != LGlobal || !f.vc.want("LOCK") {
		return
	}
	name := loc.Root[2:]
	decl := f.vc.eng.specs.globals[name]
	name += loc.Path
	mode := "read"
	if write {
		mode = "write"
	}
	fnName := f.rootFrame().fn.Name()
	inInit := fnName == "init" || strings.HasPrefix(fnName, "init#") || f.rootFrame().inOnce
	if decl == nil {
		if inInit {
			return
		}
		f.oblige(st, "LOCK", mode+" of undeclared package variable "+name, pos, False)
		return
	}
	switch decl.Kind {
	case "immutable-after-init":
		if write && !inInit {
			f.oblige(st, "LOCK", "write of immutable-after-init variable "+name, pos, False)
		} else if f.vc.want("LOCK") {
			f.oblige(st, "LOCK", mode+" of immutable-after-init variable "+name, pos, True2())
		}
	case "trusted-concurrent":
		f.oblige(st, "LOCK", mode+" of trusted-concurrent variable "+name, pos, True2())
	case "guarded_by":
		if inInit {
			return
		}
		held := st.ghost["lock:"+decl.Guard]
		if held.S == "" {
			held = Zero
		}
		// 0 = not held, 1 = read-held, 2 = write-held
		need := One
		if write {
			need = IntT(2)
		}
		f.oblige(st, "LOCK", mode+" of "+name+" guarded_by "+decl.Guard, pos, Ge(held, need))
	}
}

// True2 is a trivially true goal that is still counted as an obligation.
func True2() Term { return Term{"(= 0 0)", SBool} }
