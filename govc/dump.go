//go:build ignore

package main

import (
	"fmt"
	"os"
	"strings"

	"golang.org/x/tools/go/packages"
	"golang.org/x/tools/go/ssa"
	"golang.org/x/tools/go/ssa/ssautil"
)

func main() {
	cfg := &packages.Config{Mode: packages.LoadAllSyntax, Dir: "/repo", Env: append(os.Environ(), "GOFLAGS=-mod=mod", "GOPROXY=off")}
	pkgs, err := packages.Load(cfg, "./pkg/...")
	if err != nil {
		panic(err)
	}
	prog, spkgs := ssautil.AllPackages(pkgs, ssa.InstantiateGenerics|ssa.GlobalDebug)
	prog.Build()
	want := os.Args[1:]
	for _, p := range spkgs {
		if p == nil {
			continue
		}
		for fn := range ssautil.AllFunctions(prog) {
			if fn.Pkg != p {
				continue
			}
			for _, w := range want {
				if strings.Contains(fn.String(), w) {
					fn.WriteTo(os.Stdout)
					fmt.Println()
				}
			}
		}
	}
}
