package main

import (
	"fmt"
	"go/ast"
	"go/token"
	"go/types"
	"os"
	"sort"
	"strings"

	"golang.org/x/tools/go/packages"
	"golang.org/x/tools/go/ssa"
	"golang.org/x/tools/go/ssa/ssautil"
)

type Engine struct {
	prog            *ssa.Program
	fset            *token.FileSet
	pkgs            []*packages.Package
	spkgs           []*ssa.Package
	byName          map[string]*ssa.Package
	specs           *SpecDB
	ext             map[string]*ExtSpec
	extMethods      map[string]*ExtSpec
	typeIDs         map[string]int64
	typeByID        map[int64]types.Type
	candEnable      map[string]Term
	kindIDs         map[string]int64
	candParent      map[string]string
	anyFuncs        map[string]*ssa.Function
	allowLoopInline bool
	funcs           map[string]*ssa.Function // specKey -> function
	loadSecs        float64
}

func loadEngine(repo string, overlay map[string][]byte) (*Engine, error) {
	cfg := &packages.Config{
		Mode:    packages.LoadAllSyntax,
		Dir:     repo,
		Env:     append(os.Environ(), "GOFLAGS=-mod=mod", "GOPROXY=off", "GOSUMDB=off", "GOTOOLCHAIN=local"),
		Overlay: overlay,
	}
	pkgs, err := packages.Load(cfg, "./pkg/...")
	if err != nil {
		return nil, err
	}
	var errs []string
	packages.Visit(pkgs, nil, func(p *packages.Package) {
		if strings.HasPrefix(p.PkgPath, "github.com/protobom/protobom") {
			for _, e := range p.Errors {
				errs = append(errs, e.Error())
			}
		}
	})
	if len(errs) > 0 {
		return nil, fmt.Errorf("package errors: %s", strings.Join(errs, "; "))
	}
	prog, spkgs := ssautil.AllPackages(pkgs, ssa.InstantiateGenerics|ssa.GlobalDebug)
	prog.Build()
	e := &Engine{prog: prog, fset: prog.Fset, pkgs: pkgs, spkgs: spkgs, byName: map[string]*ssa.Package{},
		typeIDs: map[string]int64{}, typeByID: map[int64]types.Type{}, kindIDs: map[string]int64{}, candParent: map[string]string{}, candEnable: map[string]Term{}, funcs: map[string]*ssa.Function{}}
	for _, p := range prog.AllPackages() {
		if strings.HasPrefix(p.Pkg.Path(), "github.com/protobom/protobom/pkg") {
			if strings.HasSuffix(p.Pkg.Path(), "fakes") {
				continue
			}
			if old, ok := e.byName[p.Pkg.Name()]; ok && old != p {
				// serializers / unserializers etc. have unique names; beta is "beta"
				continue
			}
			e.byName[p.Pkg.Name()] = p
		}
	}
	for fn := range ssautil.AllFunctions(prog) {
		if e.inScope(fn) {
			if fn.TypeParams().Len() > 0 && len(fn.TypeArgs()) == 0 {
				continue // generic template; instantiations are verified
			}
			if fn.Synthetic == "package initializer" {
				continue
			}
			openInst := false
			for _, ta := range fn.TypeArgs() {
				if _, isTP := ta.(*types.TypeParam); isTP {
					openInst = true
				}
			}
			if openInst {
				continue
			}
			if pf := prog.Fset.Position(fn.Pos()).Filename; strings.HasSuffix(pf, ".pb.go") && !strings.HasPrefix(fn.Name(), "Get") {
				continue
			}
			if strings.HasSuffix(prog.Fset.Position(fn.Pos()).Filename, "_test.go") || strings.Contains(prog.Fset.Position(fn.Pos()).Filename, "fakes/") {
				continue
			}
			k := specKey(fn)
			if old, ok := e.funcs[k]; ok {
				// prefer the declared function over wrappers
				if old.Synthetic == "" {
					continue
				}
			}
			e.funcs[k] = fn
		}
	}
	e.initExt()
	return e, nil
}

func (e *Engine) typesPkgByName(name string) *types.Package {
	if p := e.byName[name]; p != nil {
		return p.Pkg
	}
	// imported third-party packages by name
	for _, p := range e.prog.AllPackages() {
		if p.Pkg.Name() == name {
			return p.Pkg
		}
	}
	return nil
}

func (e *Engine) typesPkgsByName(name string) []*types.Package {
	var out []*types.Package
	if p := e.byName[name]; p != nil {
		out = append(out, p.Pkg)
	}
	for _, p := range e.prog.AllPackages() {
		if p.Pkg.Name() == name && (len(out) == 0 || out[0] != p.Pkg) {
			out = append(out, p.Pkg)
		}
	}
	return out
}

// lookupFunc finds pkg.Name or pkg.Type.Method.
func (e *Engine) lookupFunc(pkg, name string) *ssa.Function {
	if fn := e.funcs[pkg+"."+name]; fn != nil {
		return fn
	}
	// functions outside /repo (trusted contracts), by package name
	if e.anyFuncs == nil {
		e.anyFuncs = map[string]*ssa.Function{}
		for fn := range allFuncs(e.prog) {
			if fn.Synthetic != "" || fn.Parent() != nil {
				continue
			}
			e.anyFuncs[specKey(fn)] = fn
		}
	}
	return e.anyFuncs[pkg+"."+name]
}

// ---- root verification ----

type FuncResult struct {
	Fn       string
	VC       *VC
	Obls     []*Obl
	Unsup    []string
	Secs     float64
	Cands    int
	CandKept int
}

// extra Frame fields for the root contract
type rootInfo struct{}

func (f *Frame) bindLoopInvs() {
	if f.spec == nil {
		return
	}
	// loops are discovered in run(); invariants are attached there via ordinal
}

// verifyFunc generates the VC for one function under its contract.
func (e *Engine) verifyFunc(fn *ssa.Function, classes map[string]bool) (vc *VC) {
	name := fnDisplayName(fn)
	vc = newVC(e, name, classes)
	defer func() {
		if r := recover(); r != nil {
			vc.unsupported("engine panic: %v", r)
			if os.Getenv("GOVC_DEBUG") != "" {
				panic(r)
			}
		}
	}()
	f := &Frame{vc: vc, fn: fn, fname: name, root: true}
	f.spec = e.specs.funcSpec(fn)
	st := &State{heap: map[string]Term{}, alloc: vc.A0, reach: True, ghost: map[string]Term{}}
	var params []Val
	for _, p := range fn.Params {
		v := vc.freshVal("p_"+p.Name(), p.Type())
		f.assumeWF(st, v)
		for i, lf := range layout(p.Type()) {
			if isMutableRefLeaf(lf) {
				vc.preRefs[v.L[i].S] = true
			}
		}
		params = append(params, v)
	}
	var bindings []Val
	for _, fv := range fn.FreeVars {
		v := vc.freshVal("fv_"+fv.Name(), fv.Type())
		f.assumeWF(st, v)
		bindings = append(bindings, v)
	}
	f.entry = st
	f.vals = map[ssa.Value]Val{}
	e.assumeTypeInvs(f, st)
	if recv := fn.Signature.Recv(); recv != nil && len(params) > 0 {
		if _, ok := recv.Type().Underlying().(*types.Pointer); ok {
			// implicit precondition: methods are called on non-nil receivers
			vc.fact(Ne(params[0].one(), Zero))
		}
	}
	if specUsesFieldSets(f.spec) {
		vc.useFS = true
	}
	if f.spec != nil {
		vc.usedSpec[f.spec.Name] = true
		env := f.specEnv(params, nil, st)
		for _, r := range f.spec.Requires {
			vc.fact(env.evalBool(r.Expr, st, nil))
		}
		f.hasAssigns = f.spec.HasAssigns
		f.owns = f.spec.Owns
		f.assignTargets = env.assignTargets(f.spec, st)
		vc.pureFrame = f.hasAssigns && len(f.assignTargets) == 0
		for _, pr := range f.spec.Props {
			if pd, ok := propDefs[pr]; ok {
				for _, c := range pd.Classes {
					if c == "FRAME" {
						vc.frameOwned = true
					}
				}
			}
		}
		for _, h := range f.spec.Holds {
			st.ghost["lock:"+h] = IntT(2)
		}
	}
	if strings.Contains(fn.Name(), "$") && fn.Parent() != nil && isOnceClosure(fn) {
		f.inOnce = true
	}
	// COVER (a): the precondition is satisfiable
	if o := vc.oblige(st, "COVER", name, "precondition satisfiable", fn.Pos(), False); o != nil {
		o.Extra = map[string]string{"expect": "sat"}
	}
	res, out := f.run(st, params, bindings)
	_ = res
	e.readsObligations(f, st)
	// COVER (b): the exit is reachable
	if o := vc.oblige(out, "COVER", name, "exit reachable", fn.Pos(), False); o != nil {
		o.Extra = map[string]string{"expect": "sat"}
	}
	return vc
}

func isOnceClosure(fn *ssa.Function) bool {
	// closure passed to (*sync.Once).Do in its parent
	p := fn.Parent()
	for _, b := range p.Blocks {
		for _, in := range b.Instrs {
			if c, ok := in.(*ssa.Call); ok {
				if callee := c.Common().StaticCallee(); callee != nil && callee.String() == "(*sync.Once).Do" {
					if mc, ok := c.Common().Args[1].(*ssa.MakeClosure); ok && mc.Fn == fn {
						return true
					}
					if ff, ok := c.Common().Args[1].(*ssa.Function); ok && ff == fn {
						return true
					}
				}
			}
		}
	}
	return false
}

func (f *Frame) specEnv(params []Val, results []Val, pre *State) *SpecEnv {
	env := &SpecEnv{f: f, fn: f.fn, spec: f.spec, params: map[string]Val{}, results: results, pre: pre}
	for i, p := range f.fn.Params {
		if i < len(params) {
			env.params[p.Name()] = params[i]
		}
	}
	return env
}

// onReturn emits POST / OWN obligations of the root function.
func (f *Frame) onReturn(st *State, vals []Val, pos token.Pos) {
	if !f.root {
		return
	}
	f.ownReturn(st, vals, pos)
	if f.spec == nil {
		return
	}
	env := f.specEnv(f.params, vals, f.entry)
	env.locals = func(name string) (Val, bool) { return f.resolveLocalAt(name, st) }
	for _, e := range f.spec.Ensures {
		label := e.Label
		if label == "" {
			label = e.Text
		}
		t := env.evalBool(e.Expr, st, f.entry)
		f.oblige(st, "POST", label, pos, t)
	}
}

// ---- source names for loop invariants ----

type nameRef struct {
	v      ssa.Value
	isAddr bool
	pos    token.Pos
}

func (f *Frame) nameIndex() map[string][]nameRef {
	if f.names != nil {
		return f.names
	}
	f.names = map[string][]nameRef{}
	for _, b := range f.fn.Blocks {
		for _, in := range b.Instrs {
			if d, ok := in.(*ssa.DebugRef); ok {
				if id, ok := d.Expr.(*ast.Ident); ok {
					f.names[id.Name] = append(f.names[id.Name], nameRef{d.X, d.IsAddr, d.Pos()})
				}
			}
		}
	}
	return f.names
}

// resolveLocal finds the SSA value for a source variable name as seen at the
// header of loop l (nil loop: at function exit).
func (f *Frame) resolveLocal(l *Loop, name string, st *State, phi map[*ssa.Phi]Val) (Val, bool) {
	if name == "_i1" && l != nil {
		// number of elements the innermost enclosing range loop has finished
		var outer *Loop
		for _, o := range f.loops {
			if o != l && o.blocks[l.header] && (outer == nil || len(o.blocks) < len(outer.blocks)) {
				outer = o
			}
		}
		if outer == nil {
			return Val{}, false
		}
		for _, p := range outer.phis {
			if p.Comment == "rangeindex" {
				return scalar(types.Typ[types.Int], Add(f.evalUnder(p, l, phi).one(), One)), true
			}
		}
		return Val{}, false
	}
	if name == "_V1" && l != nil {
		// visited set of the innermost enclosing loop
		var outer *Loop
		for _, o := range f.loops {
			if o != l && o.blocks[l.header] && (outer == nil || len(o.blocks) < len(outer.blocks)) {
				outer = o
			}
		}
		if outer == nil {
			return Val{}, false
		}
		return f.resolveLocal(outer, "_V", st, phi)
	}
	if name == "_V" && l != nil && l.header != nil {
		for _, in := range l.header.Instrs {
			if nx, ok := in.(*ssa.Next); ok {
				if rg, ok := nx.Iter.(*ssa.Range); ok {
					if mt, ok := rg.X.Type().Underlying().(*types.Map); ok {
						cn := fmt.Sprintf("%s|d%d", rangeKey(rg), f.depth)
						f.vc.registerComp(cn, SArr(keySort(mt.Key()), SBool))
						return Val{Set: keySort(mt.Key()), T: mt.Key(), L: []Term{f.vc.get(st, cn)}}, true
					}
				}
			}
		}
	}
	if name == "_i" && l != nil {
		for _, p := range l.phis {
			if p.Comment == "rangeindex" {
				return scalar(types.Typ[types.Int], Add(phi[p].one(), One)), true
			}
		}
	}
	// header phis of this loop, then of enclosing loops
	if l != nil {
		for _, p := range l.phis {
			if p.Comment == name {
				return phi[p], true
			}
		}
	}
	// addr_x: the address of the addressable local x (a *T for a local of type T)
	wantAddr := false
	if strings.HasPrefix(name, "addr_") {
		wantAddr = true
		name = strings.TrimPrefix(name, "addr_")
	}
	if wantAddr {
		// the allocation of the addressable local itself (its DebugRefs may all be value uses)
		var alloc *ssa.Alloc
		for _, b := range f.fn.Blocks {
			for _, in := range b.Instrs {
				if a, ok := in.(*ssa.Alloc); ok && a.Comment == name && f.availableAt(a, l) {
					if alloc == nil || f.later(a, alloc) {
						alloc = a
					}
				}
			}
		}
		if alloc != nil {
			return f.evalUnder(alloc, l, phi), true
		}
	}
	refs := f.nameIndex()[name]
	var best *nameRef
	for i := range refs {
		r := &refs[i]
		if !f.availableAt(r.v, l) {
			continue
		}
		if best == nil || f.later(r.v, best.v) {
			best = r
		}
	}
	if best == nil {
		return Val{}, false
	}
	v := f.evalUnder(best.v, l, phi)
	if wantAddr {
		if !best.isAddr {
			return Val{}, false
		}
		return v, true
	}
	if best.isAddr {
		return f.vc.load(st, f.ptrLoc(v)), true
	}
	return v, true
}

// availableAt: the value is defined when control is at the header of l
// (header-block values computed from phis count as available).
func (f *Frame) availableAt(v ssa.Value, l *Loop) bool {
	switch x := v.(type) {
	case *ssa.Parameter, *ssa.Const, *ssa.Global, *ssa.FreeVar, *ssa.Function:
		return true
	case ssa.Instruction:
		b := x.Block()
		if l == nil {
			return true
		}
		if b == l.header {
			return f.pureFromPhis(v, l)
		}
		return b.Dominates(l.header) && !l.blocks[b]
	}
	return false
}

func (f *Frame) pureFromPhis(v ssa.Value, l *Loop) bool {
	switch x := v.(type) {
	case *ssa.Phi:
		return x.Block() == l.header
	case *ssa.BinOp:
		return f.opAvail(x.X, l) && f.opAvail(x.Y, l)
	}
	return false
}

func (f *Frame) opAvail(v ssa.Value, l *Loop) bool {
	if in, ok := v.(ssa.Instruction); ok && in.Block() == l.header {
		return f.pureFromPhis(v, l)
	}
	return f.availableAt(v, l)
}

func (f *Frame) later(a, b ssa.Value) bool {
	ia, ok1 := a.(ssa.Instruction)
	ib, ok2 := b.(ssa.Instruction)
	if !ok1 {
		return false
	}
	if !ok2 {
		return true
	}
	if ia.Block() == ib.Block() {
		for _, in := range ia.Block().Instrs {
			if in == ib {
				return true // b first, so a is later
			}
			if in == ia {
				return false
			}
		}
	}
	return ib.Block().Dominates(ia.Block())
}

// evalUnder evaluates v with the header phis of l replaced by phi.
func (f *Frame) evalUnder(v ssa.Value, l *Loop, phi map[*ssa.Phi]Val) Val {
	if l != nil {
		switch x := v.(type) {
		case *ssa.Phi:
			if x.Block() == l.header {
				return phi[x]
			}
		case *ssa.BinOp:
			if x.Block() == l.header {
				return f.binop(x.Op, f.evalUnder(x.X, l, phi), f.evalUnder(x.Y, l, phi), x.Type(), x.X.Type())
			}
		}
	}
	return f.val(v)
}

func (f *Frame) loopEnv(l *Loop, st *State, phi map[*ssa.Phi]Val) *SpecEnv {
	rf := f
	env := rf.specEnv(rf.params, nil, rf.entry)
	env.locals = func(name string) (Val, bool) { return f.resolveLocal(l, name, st, phi) }
	return env
}

func (f *Frame) evalLoopInv(l *Loop, inv *SpecClause, st *State, phi map[*ssa.Phi]Val) Term {
	env := f.loopEnv(l, st, phi)
	return env.evalBool(inv.Expr, st, f.entry)
}

func (f *Frame) evalLoopExpr(l *Loop, c *SpecClause, st *State, phi map[*ssa.Phi]Val) Term {
	env := f.loopEnv(l, st, phi)
	return env.eval(c.Expr, st, f.entry).one()
}

// ---- lemma verification ----

func (e *Engine) verifyLemma(l *LemmaSpec) *VC {
	vc := newVC(e, l.Name, nil)
	f := &Frame{vc: vc, fname: l.Name, root: true}
	st := &State{heap: map[string]Term{}, alloc: vc.A0, reach: True, ghost: map[string]Term{}}
	f.entry = st
	f.vals = map[ssa.Value]Val{}
	env := &SpecEnv{f: f, pkg: e.typesPkgByName(l.Pkg), params: map[string]Val{}, pre: st, spec: &FuncSpec{Name: l.Name}}
	// leading universal quantifiers become free constants (prove P(c) for fresh c)
	expr := l.Expr
	for {
		q, ok := expr.(*EQuant)
		if !ok || !q.All {
			break
		}
		for _, b := range q.Vars {
			ty := env.resolveType(b.Type)
			if ty == nil {
				vc.unsupported("lemma %s: unknown type %s", l.Name, b.Type)
				ty = types.Typ[types.Int]
			}
			v := vc.freshVal("L_"+b.Name, ty)
			f.assumeWF(st, v)
			env.params[b.Name] = v
		}
		expr = q.Body
	}
	t := env.evalBool(expr, st, nil)
	vc.oblige(st, l.Class, l.Name, l.Text, token.NoPos, t)
	return vc
}

// functionsByPattern returns in-scope functions whose display name matches any
// of the given glob-ish patterns ("pkg.Type.Method" keys or prefix*).
func (e *Engine) functionsByKey(keys []string) []*ssa.Function {
	var out []*ssa.Function
	seen := map[*ssa.Function]bool{}
	var all []string
	for k := range e.funcs {
		all = append(all, k)
	}
	sort.Strings(all)
	for _, pat := range keys {
		for _, k := range all {
			if matchKey(pat, k) && !seen[e.funcs[k]] {
				fn := e.funcs[k]
				if fn.Blocks == nil {
					continue
				}
				seen[fn] = true
				out = append(out, fn)
			}
		}
	}
	return out
}

func matchKey(pat, k string) bool {
	if strings.HasSuffix(pat, "*") {
		return strings.HasPrefix(k, strings.TrimSuffix(pat, "*"))
	}
	return pat == k
}

// assumeTypeInvs: every message object that exists at entry satisfies the
// declared type invariants (the "valid input value" precondition).
func (e *Engine) assumeTypeInvs(f *Frame, st *State) {
	vc := f.vc
	for i, ti := range e.specs.typeinvs {
		pkg := e.typesPkgByName(ti.Pkg)
		if pkg == nil {
			continue
		}
		o := pkg.Scope().Lookup(ti.Type)
		if o == nil {
			vc.unsupported("typeinv: unknown type %s.%s", ti.Pkg, ti.Type)
			continue
		}
		self := Term{fmt.Sprintf("self!ti%d", i), SInt}
		env := &SpecEnv{f: f, pkg: pkg, params: map[string]Val{}, pre: st, spec: &FuncSpec{Name: "typeinv " + ti.Type}, qn: 1}
		env.bound = map[string]Val{"self": scalar(types.NewPointer(o.Type()), self)}
		body := env.evalBool(ti.Expr, st, nil)
		vc.fact(Forall([]Term{self}, Imp(And(Lt(Zero, self), Lt(self, vc.A0)), body)))
	}
}

// resolveLocalAt: a source variable with a single SSA definition (never
// reassigned), usable in postconditions.
func (f *Frame) resolveLocalAt(name string, st *State) (Val, bool) {
	refs := f.nameIndex()[name]
	var v ssa.Value
	for _, r := range refs {
		if r.isAddr {
			return Val{}, false
		}
		if v != nil && v != r.v {
			return Val{}, false // several definitions: ambiguous at a return
		}
		v = r.v
	}
	if v == nil {
		return Val{}, false
	}
	if _, ok := f.vals[v]; !ok {
		if _, isConst := v.(*ssa.Const); !isConst {
			return Val{}, false
		}
	}
	return f.val(v), true
}

// readsObligations: reads-each clauses. The obligation for field F holds iff
// the body of the function (callees are not followed) loads field F of a value
// of the named struct type: a key function that never reads a field cannot
// distinguish two values that differ only in that field.
func (e *Engine) readsObligations(f *Frame, st *State) {
	if f.spec == nil || !f.vc.want("READS") {
		return
	}
	for _, et := range f.spec.Reads {
		pkg := e.typesPkgByName(f.spec.Pkg)
		tn := et.Type
		if i := strings.Index(tn, "."); i >= 0 {
			pkg = e.typesPkgByName(tn[:i])
			tn = tn[i+1:]
		}
		if pkg == nil || pkg.Scope().Lookup(tn) == nil {
			f.unsupported("reads-each: unknown type %s", et.Type)
			continue
		}
		named := pkg.Scope().Lookup(tn).Type()
		stt, ok := named.Underlying().(*types.Struct)
		if !ok {
			f.unsupported("reads-each: %s is not a struct", et.Type)
			continue
		}
		read := map[int]bool{}
		for _, b := range f.fn.Blocks {
			for _, in := range b.Instrs {
				switch x := in.(type) {
				case *ssa.FieldAddr:
					if pt, ok := x.X.Type().Underlying().(*types.Pointer); ok && types.Identical(pt.Elem(), named) {
						read[x.Field] = true
					}
				case *ssa.Field:
					if types.Identical(x.X.Type(), named) {
						read[x.Field] = true
					}
				}
			}
		}
		for i := 0; i < stt.NumFields(); i++ {
			fld := stt.Field(i)
			if isProtoInternalField(fld) || et.Except[fld.Name()] {
				continue
			}
			k := fieldKind(fld.Type())
			match := false
			for _, want := range et.Kinds {
				if want == k || want == "all" {
					match = true
				}
			}
			if !match {
				continue
			}
			label := strings.ReplaceAll(et.Label, "$f", fld.Name())
			goal := False
			if read[i] {
				goal = True2()
			}
			f.oblige(st, "READS", label+": the function reads field "+fld.Name()+" of "+et.Type+" (a field it never reads cannot influence its result)", f.fn.Pos(), goal)
		}
	}
}
