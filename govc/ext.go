package main

import (
	"fmt"
	"go/token"
	"go/types"
	"strings"

	"golang.org/x/tools/go/ssa"
)

// ExtSpec is a trusted contract of a function outside /repo.
type ExtSpec struct {
	name  string
	doc   string
	apply func(f *Frame, st *State, c *ssa.CallCommon, args []Val, rt types.Type, pos token.Pos) Val
	mods  func(e *Engine, c *ssa.CallCommon, m *ModSet)
}

func (x *ExtSpec) modsFor(e *Engine, c *ssa.CallCommon) *ModSet {
	m := newModSet()
	if x.mods != nil {
		x.mods(e, c, m)
	}
	return m
}

func (e *Engine) extInvoke(c *ssa.CallCommon) *ExtSpec {
	n := namedOf(c.Value.Type())
	key := ""
	if n != nil && n.Obj().Pkg() != nil {
		key = n.Obj().Pkg().Path() + "." + n.Obj().Name() + "." + c.Method.Name()
	} else if n != nil {
		key = n.Obj().Name() + "." + c.Method.Name() // error.Error
	}
	return e.extMethods[key]
}

func (f *Frame) nonNilErr(rt types.Type) Val {
	v := f.vc.freshVal("err", rt)
	f.vc.fact(Ne(v.L[0], Zero))
	return v
}

// freshResult: unconstrained result respecting the memory model.
func freshResult(f *Frame, st *State, rt types.Type, hint string) Val {
	v := f.vc.freshVal(hint, rt)
	f.assumeWF(st, v)
	return v
}

// ufResult: result is an uninterpreted function of the scalar argument leaves.
func ufResult(f *Frame, name string, args []Val, rt types.Type) Val {
	vc := f.vc
	var sorts []*Sort
	var ts []Term
	for _, a := range args {
		for _, t := range a.L {
			sorts = append(sorts, t.Sort)
			ts = append(ts, t)
		}
	}
	out := Val{T: rt}
	for i, lf := range layout(rt) {
		fn := vc.declareFun(fmt.Sprintf("uf|%s|%d", name, i), sorts, lf.Sort)
		if len(ts) == 0 {
			out.L = append(out.L, Term{fn, lf.Sort})
		} else {
			out.L = append(out.L, mk(lf.Sort, fn, ts...))
		}
	}
	return out
}

func (e *Engine) reg(name, doc string, apply func(f *Frame, st *State, c *ssa.CallCommon, args []Val, rt types.Type, pos token.Pos) Val) *ExtSpec {
	x := &ExtSpec{name: name, doc: doc, apply: apply}
	e.ext[name] = x
	return x
}

func (e *Engine) regMethod(key, doc string, apply func(f *Frame, st *State, c *ssa.CallCommon, args []Val, rt types.Type, pos token.Pos) Val) *ExtSpec {
	x := &ExtSpec{name: key, doc: doc, apply: apply}
	e.extMethods[key] = x
	return x
}

func allocMods(e *Engine, c *ssa.CallCommon, m *ModSet) {}

func (e *Engine) initExt() {
	e.ext = map[string]*ExtSpec{}
	e.extMethods = map[string]*ExtSpec{}
	e.initHOF()
	defer e.initExt3()
	defer e.initExt2()

	pure := func(names []string, doc string) {
		for _, n := range names {
			n := n
			e.reg(n, n+": "+doc, func(f *Frame, st *State, c *ssa.CallCommon, args []Val, rt types.Type, pos token.Pos) Val {
				return freshResult(f, st, rt, "ext")
			}).mods = allocMods
		}
	}
	uf := func(names []string, doc string) {
		for _, n := range names {
			n := n
			e.reg(n, n+": "+doc, func(f *Frame, st *State, c *ssa.CallCommon, args []Val, rt types.Type, pos token.Pos) Val {
				return ufResult(f, n, args, rt)
			})
		}
	}

	// ---- fmt / errors ----
	e.reg("fmt.Sprintf", "fmt.Sprintf: pure, no heap effect visible to the caller; result unconstrained string", func(f *Frame, st *State, c *ssa.CallCommon, args []Val, rt types.Type, pos token.Pos) Val {
		return freshResult(f, st, rt, "sprintf")
	}).mods = allocMods
	e.reg("fmt.Errorf", "fmt.Errorf: returns a non-nil error; no heap effect", func(f *Frame, st *State, c *ssa.CallCommon, args []Val, rt types.Type, pos token.Pos) Val {
		return f.nonNilErr(rt)
	}).mods = allocMods
	e.reg("errors.New", "errors.New: returns a non-nil error", func(f *Frame, st *State, c *ssa.CallCommon, args []Val, rt types.Type, pos token.Pos) Val {
		return f.nonNilErr(rt)
	}).mods = allocMods
	pure([]string{"fmt.Printf", "fmt.Println", "fmt.Sprint", "fmt.Sprintln", "errors.Is", "errors.As"}, "no heap effect visible to the caller; result unconstrained")

	// ---- strings ----
	litUF := func(name string, fn func(string) string) {
		e.reg(name, name+": pure; evaluated with the real implementation on literal arguments, uninterpreted otherwise", func(f *Frame, st *State, c *ssa.CallCommon, args []Val, rt types.Type, pos token.Pos) Val {
			ufn := "uf|" + name + "|0"
			f.vc.declareFun(ufn, []*Sort{SStr}, SStr)
			f.vc.litFuncs[ufn] = fn
			return scalar(rt, mk(SStr, sym(ufn), args[0].one()))
		})
	}
	litUF("strings.ToLower", strings.ToLower)
	litUF("strings.ToUpper", strings.ToUpper)
	litUF("strings.TrimSpace", strings.TrimSpace)
	uf([]string{"strings.TrimPrefix", "strings.TrimSuffix", "strings.ReplaceAll", "strings.LastIndex", "strings.Index", "strings.EqualFold", "strings.Replace", "strings.Title"},
		"pure function of its arguments (uninterpreted)")
	e.reg("strings.HasPrefix", "strings.HasPrefix(s,p) == str.prefixof p s", func(f *Frame, st *State, c *ssa.CallCommon, args []Val, rt types.Type, pos token.Pos) Val {
		return scalar(rt, mk(SBool, "str.prefixof", args[1].one(), args[0].one()))
	})
	e.reg("strings.HasSuffix", "strings.HasSuffix(s,p) == str.suffixof p s", func(f *Frame, st *State, c *ssa.CallCommon, args []Val, rt types.Type, pos token.Pos) Val {
		return scalar(rt, mk(SBool, "str.suffixof", args[1].one(), args[0].one()))
	})
	e.reg("strings.Contains", "strings.Contains(s,t) == str.contains s t", func(f *Frame, st *State, c *ssa.CallCommon, args []Val, rt types.Type, pos token.Pos) Val {
		return scalar(rt, mk(SBool, "str.contains", args[0].one(), args[1].one()))
	})
	e.reg("strings.Repeat", "strings.Repeat: requires count >= 0 (panics otherwise); pure", func(f *Frame, st *State, c *ssa.CallCommon, args []Val, rt types.Type, pos token.Pos) Val {
		f.oblige(st, "SAFE", "strings.Repeat: negative count", pos, Ge(args[1].one(), Zero))
		return ufResult(f, "strings.Repeat", args, rt)
	})
	e.reg("strings.Join", "strings.Join(elems, sep): \"\" for an empty slice, otherwise a string that starts with elems[0] (the rest is unconstrained here)", func(f *Frame, st *State, c *ssa.CallCommon, args []Val, rt types.Type, pos token.Pos) Val {
		v := freshResult(f, st, rt, "join")
		vc := f.vc
		s := args[0]
		row := Select(vc.get(st, vc.elemComps(elemOf(s.T))[0]), s.arr())
		vc.fact(Imp(st.reach, Imp(Le(s.len(), Zero), Eq(v.one(), StrT("")))))
		vc.fact(Imp(st.reach, Imp(Gt(s.len(), Zero), mk(SBool, "str.prefixof", Select(row, Zero), v.one()))))
		return v
	})
	e.reg("strings.Split", "strings.Split(s, sep): returns a fresh slice with len >= 1 (sep non-empty); for a literal separator the result is split.len|sep(s) elements split.at|sep(s, i), both evaluated with the real strings.Split on every string literal of the VC", func(f *Frame, st *State, c *ssa.CallCommon, args []Val, rt types.Type, pos token.Pos) Val {
		v := freshSlice(f, st, rt, One)
		vc := f.vc
		sep, ok := smtLiteral(args[1].one())
		if !ok || sep == "" {
			return v
		}
		ln := vc.declareFun("split.len|"+sep, []*Sort{SStr}, SInt)
		at := vc.declareFun("split.at|"+sep, []*Sort{SStr, SInt}, SStr)
		vc.litAxioms["split|"+sep] = func(l string) ([]string, []string) {
			parts := strings.Split(l, sep)
			out := []string{fmt.Sprintf("(assert (= (%s %s) %d))", ln, StrT(l).S, len(parts))}
			for i, p := range parts {
				out = append(out, fmt.Sprintf("(assert (= (%s %s %d) %s))", at, StrT(l).S, i, StrT(p).S))
			}
			return out, parts
		}
		s := args[0].one()
		vc.fact(Eq(v.len(), mk(SInt, ln, s)))
		row := Select(vc.get(st, vc.elemComps(elemOf(rt))[0]), v.arr())
		j := Term{"j!q", SInt}
		vc.fact(Forall([]Term{j}, Imp(And(Le(Zero, j), Lt(j, v.len())), Eq(Select(row, j), mk(SStr, at, s, j))), []Term{Select(row, j)}))
		return v
	}).mods = func(e *Engine, c *ssa.CallCommon, m *ModSet) {
		m.allocKind("E|string")
		addElemComps(m, types.Typ[types.String])
	}
	uf([]string{"strconv.Itoa", "unicode/utf8.RuneCountInString"}, "pure function (uninterpreted)")
	pure([]string{"strconv.Atoi", "unicode/utf8.DecodeRuneInString"}, "pure; result unconstrained")

	// ---- sort / slices / maps ----
	sortMods := func(el types.Type) func(e *Engine, c *ssa.CallCommon, m *ModSet) {
		return func(e *Engine, c *ssa.CallCommon, m *ModSet) { addElemComps(m, elemOf(c.Args[0].Type())) }
	}
	sortApply := func(f *Frame, st *State, c *ssa.CallCommon, args []Val, rt types.Type, pos token.Pos) Val {
		// assigns elements [0,len) of the argument's backing array
		s := args[0]
		el := elemOf(s.T)
		if f.frameOn() {
			goal := Imp(Gt(s.len(), One), Or(Ge(s.arr(), f.vc.A0), f.assignsAllow(compElem(el, ""), s.arr())))
			f.oblige(st, "FRAME", "call sort: permutes elements visible E|"+typeKey(el), pos, goal)
		}
		vc := f.vc
		for _, name := range vc.elemComps(el) {
			cOld := vc.get(st, name)
			if !vc.freshRefs[s.arr().S] {
				st.markDirty(name)
			}
			perm := vc.fresh("sorted", cOld.Sort.V)
			j := Term{"j!q", SInt}
			// elements outside [0,len) untouched; a slice of length <= 1 is unchanged
			vc.fact(Forall([]Term{j}, Imp(Or(Lt(j, Zero), Ge(j, s.len())), Eq(Select(perm, j), Select(Select(cOld, s.arr()), j))), []Term{Select(perm, j)}))
			vc.fact(Imp(Le(s.len(), One), Eq(perm, Select(cOld, s.arr()))))
			// a permutation keeps the set of the first len elements
			if fn, es, ok := vc.esFun(el); ok && len(vc.elemComps(el)) == 1 {
				vc.fact(Eq(mk(setSort(es), fn, perm, s.len()), mk(setSort(es), fn, Select(cOld, s.arr()), s.len())))
			}
			vc.set(st, name, Store(cOld, s.arr(), perm))
		}
		return Val{T: rt}
	}
	for _, n := range []string{"sort.Strings", "sort.Ints", "slices.Sort[[]string string]", "slices.Sort[[]int int]"} {
		e.reg(n, n+": permutes elements [0,len) of the argument's backing array in place (assigns them)", sortApply).mods = sortMods(nil)
	}
	cloneSlice := func(f *Frame, st *State, c *ssa.CallCommon, args []Val, rt types.Type, pos token.Pos) Val {
		vc := f.vc
		s := args[0]
		el := elemOf(s.T)
		r := vc.alloc(st, "clone", "E|"+typeKey(el))
		resArr := Ite(Eq(s.arr(), Zero), Zero, r)
		for _, name := range vc.elemComps(el) {
			cc := vc.get(st, name)
			vc.set(st, name, Store(cc, r, Select(cc, s.arr())))
		}
		cp := vc.fresh("cap", SInt)
		vc.fact(Ge(cp, s.len()))
		out := sliceVal(rt, resArr, Ite(Eq(s.arr(), Zero), Zero, s.len()), Ite(Eq(s.arr(), Zero), Zero, cp))
		return out
	}
	for _, fn := range []string{"slices.Clone"} {
		_ = fn
	}
	e.regPrefix("slices.Clone[", "slices.Clone: nil for nil; otherwise a fresh backing array with the same elements", cloneSlice, func(e *Engine, c *ssa.CallCommon, m *ModSet) {
		m.allocKind("E|" + typeKey(elemOf(c.Args[0].Type())))
		addElemComps(m, elemOf(c.Args[0].Type()))
	})
	cloneMap := func(f *Frame, st *State, c *ssa.CallCommon, args []Val, rt types.Type, pos token.Pos) Val {
		vc := f.vc
		m := args[0].one()
		r := vc.alloc(st, "mclone", "M|"+typeKey(rt))
		dom, size, vals := f.mapComps(rt)
		for _, name := range append([]string{dom, size}, vals...) {
			cc := vc.get(st, name)
			vc.set(st, name, Store(cc, r, Select(cc, m)))
		}
		return scalar(rt, Ite(Eq(m, Zero), Zero, r))
	}
	e.regPrefix("maps.Clone[", "maps.Clone: nil for nil; otherwise a fresh map with the same entries", cloneMap, func(e *Engine, c *ssa.CallCommon, m *ModSet) {
		m.allocKind("M|" + typeKey(c.Args[0].Type()))
		addMapComps(m, c.Args[0].Type())
	})

	// ---- reflect / cmp ----
	pure([]string{"github.com/google/go-cmp/cmp.Equal"}, "read-only comparison; result unconstrained")
	e.reg("reflect.DeepEqual", "reflect.DeepEqual: read-only; for two []string operands the result is true iff the lengths are equal and the elements agree pairwise (then the element sets agree too); unconstrained for other operands", func(f *Frame, st *State, c *ssa.CallCommon, args []Val, rt types.Type, pos token.Pos) Val {
		v := freshResult(f, st, rt, "deepequal")
		if c == nil || len(c.Args) != 2 {
			return v
		}
		ma, ok1 := c.Args[0].(*ssa.MakeInterface)
		mb, ok2 := c.Args[1].(*ssa.MakeInterface)
		if !ok1 || !ok2 {
			return v
		}
		sa, okA := ma.X.Type().Underlying().(*types.Slice)
		sb, okB := mb.X.Type().Underlying().(*types.Slice)
		if !okA || !okB || !isStringT(sa.Elem()) || !isStringT(sb.Elem()) {
			return v
		}
		vc := f.vc
		a, b := f.val(ma.X), f.val(mb.X)
		comp := vc.get(st, vc.elemComps(sa.Elem())[0])
		ra, rb := Select(comp, a.arr()), Select(comp, b.arr())
		j := Term{"j!q", SInt}
		same := Forall([]Term{j}, Imp(And(Le(Zero, j), Lt(j, a.len())), Eq(Select(ra, j), Select(rb, j))), []Term{Select(ra, j)}, []Term{Select(rb, j)})
		// (nil and empty slices differ for DeepEqual; only the implication from true is stated)
		vc.fact(Imp(And(st.reach, v.one()), And(Eq(a.len(), b.len()), same)))
		if fn, es, ok := vc.esFun(sa.Elem()); ok {
			vc.fact(Imp(And(st.reach, v.one()), Eq(mk(setSort(es), fn, ra, a.len()), mk(setSort(es), fn, rb, b.len()))))
		}
		return v
	})

	// ---- time / timestamps ----
	pure([]string{"time.Now", "time.Parse",
		"(*google.golang.org/protobuf/types/known/timestamppb.Timestamp).String"},
		"pure; result unconstrained (nil-safe receiver where a method)")
	uf([]string{"(time.Time).UTC", "(time.Time).Format", "(time.Time).Unix", "(time.Time).Sub", "(time.Time).Equal", "(time.Time).Truncate", "(time.Time).UnixNano",
		"(time.Time).Before", "(time.Time).After", "(time.Time).IsZero", "(time.Time).Round", "(time.Duration).Truncate", "(time.Duration).Seconds", "(time.Duration).Abs", "(time.Duration).Round"},
		"pure function of its arguments (uninterpreted)")
	e.reg("(*google.golang.org/protobuf/types/known/timestamppb.Timestamp).AsTime", "Timestamp.AsTime: a pure function of the message's seconds and nanos (nil receiver reads as 0,0)", func(f *Frame, st *State, c *ssa.CallCommon, args []Val, rt types.Type, pos token.Pos) Val {
		vc := f.vc
		p := args[0]
		loc := f.ptrLoc(p)
		secs := vc.load(st, &Loc{Kind: LObj, Base: loc.Base, Root: loc.Root, Path: ".Seconds", T: types.Typ[types.Int64]})
		nanos := vc.load(st, &Loc{Kind: LObj, Base: loc.Base, Root: loc.Root, Path: ".Nanos", T: types.Typ[types.Int32]})
		isNil := Eq(p.one(), Zero)
		a := []Val{scalar(types.Typ[types.Int64], Ite(isNil, Zero, secs.one())), scalar(types.Typ[types.Int32], Ite(isNil, Zero, nanos.one()))}
		return ufResult(f, "timestamppb.AsTime", a, rt)
	})
	e.reg("google.golang.org/protobuf/types/known/timestamppb.New", "timestamppb.New: returns a fresh non-nil Timestamp", func(f *Frame, st *State, c *ssa.CallCommon, args []Val, rt types.Type, pos token.Pos) Val {
		r := f.vc.alloc(st, "ts", kindOfPtr(rt))
		return scalar(rt, r)
	}).mods = func(e *Engine, c *ssa.CallCommon, m *ModSet) {
		m.allocKind("H|google.golang.org/protobuf/types/known/timestamppb.Timestamp")
	}

	// ---- crypto ----
	uf([]string{"crypto/sha256.Sum256"}, "pure function of the byte slice header (contents abstracted)")

	// ---- uuid ----
	pure([]string{"github.com/google/uuid.New", "github.com/google/uuid.NewString", "(github.com/google/uuid.UUID).String"}, "nondeterministic; result unconstrained")

	// ---- logrus ----
	pure([]string{"github.com/sirupsen/logrus.Info", "github.com/sirupsen/logrus.Warnf", "github.com/sirupsen/logrus.Warn", "github.com/sirupsen/logrus.Infof", "github.com/sirupsen/logrus.Debugf"}, "logging: no effect on program state")
	for _, n := range []string{"github.com/sirupsen/logrus.Fatal", "github.com/sirupsen/logrus.Fatalf", "os.Exit"} {
		n := n
		e.reg(n, n+": terminates the process: requires false", func(f *Frame, st *State, c *ssa.CallCommon, args []Val, rt types.Type, pos token.Pos) Val {
			f.oblige(st, "SAFE", "process exit via "+n, pos, False)
			return Val{T: rt}
		})
	}

	// ---- context ----
	e.reg("context.Background", "context.Background: non-nil context", func(f *Frame, st *State, c *ssa.CallCommon, args []Val, rt types.Type, pos token.Pos) Val {
		v := freshResult(f, st, rt, "ctx")
		f.vc.fact(Ne(v.L[0], Zero))
		return v
	})
	e.reg("context.WithValue", "context.WithValue(parent,k,v): requires parent != nil; returns a non-nil context c with c.Value(k) == v", func(f *Frame, st *State, c *ssa.CallCommon, args []Val, rt types.Type, pos token.Pos) Val {
		f.oblige(st, "SAFE", "context.WithValue: nil parent", pos, Ne(args[0].L[0], Zero))
		v := freshResult(f, st, rt, "ctx")
		f.vc.fact(Ne(v.L[0], Zero))
		// ghost: remember key/value on the context payload
		kf := f.vc.declareFun("ctxval|tag", []*Sort{SInt, SInt, SInt}, SInt)
		vf := f.vc.declareFun("ctxval|val", []*Sort{SInt, SInt, SInt}, SInt)
		f.vc.fact(Eq(mk(SInt, kf, v.L[1], args[1].L[0], args[1].L[1]), args[2].L[0]))
		f.vc.fact(Eq(mk(SInt, vf, v.L[1], args[1].L[0], args[1].L[1]), args[2].L[1]))
		return v
	}).mods = allocMods
	e.regMethod("context.Context.Value", "Context.Value(k): the value stored by WithValue for k (else unconstrained)", func(f *Frame, st *State, c *ssa.CallCommon, args []Val, rt types.Type, pos token.Pos) Val {
		kf := f.vc.declareFun("ctxval|tag", []*Sort{SInt, SInt, SInt}, SInt)
		vf := f.vc.declareFun("ctxval|val", []*Sort{SInt, SInt, SInt}, SInt)
		return Val{T: rt, L: []Term{mk(SInt, kf, args[0].L[1], args[1].L[0], args[1].L[1]), mk(SInt, vf, args[0].L[1], args[1].L[0], args[1].L[1])}}
	})
	e.regMethod("error.Error", "error.Error(): pure", func(f *Frame, st *State, c *ssa.CallCommon, args []Val, rt types.Type, pos token.Pos) Val {
		return freshResult(f, st, rt, "errstr")
	})
}

// regPrefix registers a contract for every instantiation whose name starts with prefix.
func (e *Engine) regPrefix(prefix, doc string, apply func(f *Frame, st *State, c *ssa.CallCommon, args []Val, rt types.Type, pos token.Pos) Val, mods func(e *Engine, c *ssa.CallCommon, m *ModSet)) {
	for fn := range allFuncs(e.prog) {
		if strings.HasPrefix(fn.String(), prefix) {
			x := e.reg(fn.String(), doc, apply)
			x.doc = doc
			x.mods = mods
		}
	}
}

func freshSlice(f *Frame, st *State, rt types.Type, minLen Term) Val {
	vc := f.vc
	r := vc.alloc(st, "extarr", "E|"+typeKey(elemOf(rt)))
	ln := vc.fresh("len", SInt)
	cp := vc.fresh("cap", SInt)
	vc.fact(And(Ge(ln, minLen), Ge(ln, Zero), Le(ln, cp)))
	el := elemOf(rt)
	for _, name := range vc.elemComps(el) {
		vc.havocAt(st, name, r)
	}
	return sliceVal(rt, r, ln, cp)
}

// havocAt makes the contents of component name at object r unconstrained.
func (vc *VC) havocAt(st *State, name string, r Term) {
	c := vc.get(st, name)
	nv := vc.fresh("hv", c.Sort.V)
	vc.set(st, name, Store(c, r, nv))
}
