package main

import (
	"os"
	"reflect"
	"fmt"
	"go/constant"
	"go/token"
	"go/types"
	"strings"

	"golang.org/x/tools/go/ssa"
)

// Trusted contracts for I/O, decoding, synchronisation and the file system.

type applyFn = func(f *Frame, st *State, c *ssa.CallCommon, args []Val, rt types.Type, pos token.Pos) Val

// havocObject makes every field of the struct / cell a pointer refers to
// unconstrained (the callee assigns *p), respecting the memory model.
func (f *Frame) havocObject(st *State, p Val) {
	vc := f.vc
	if _, ok := p.T.Underlying().(*types.Pointer); !ok {
		return
	}
	loc := f.ptrLoc(p)
	if loc.Kind == LArr {
		return
	}
	v := vc.freshVal("decoded", loc.T)
	f.assumeWF(st, v)
	vc.store(st, loc, v)
}

func objComps(m *ModSet, ptrT types.Type) {
	if _, ok := ptrT.Underlying().(*types.Pointer); !ok {
		return
	}
	l := objLoc(ptrT, Zero)
	if l.Kind == LArr {
		return
	}
	addLocComps(m, LObj, l.Root, "", l.T)
}

// tupleResult builds (v, err) results.
func tupleOf(rt types.Type, vals ...Val) Val {
	out := Val{T: rt}
	for _, v := range vals {
		out.L = append(out.L, v.L...)
	}
	return out
}

func resultTypes(rt types.Type) []types.Type {
	if tt, ok := rt.(*types.Tuple); ok {
		var out []types.Type
		for i := 0; i < tt.Len(); i++ {
			out = append(out, tt.At(i).Type())
		}
		return out
	}
	return []types.Type{rt}
}

// valueOrError: (v, err) with err == nil ==> v non-nil (first leaf != 0).
func valueOrError(f *Frame, st *State, rt types.Type, hint string) Val {
	rts := resultTypes(rt)
	v := freshResult(f, st, rts[0], hint)
	e := freshResult(f, st, rts[len(rts)-1], "err")
	f.vc.fact(Imp(st.reach, Imp(Eq(e.L[0], Zero), Ne(v.L[0], Zero))))
	return tupleOf(rt, v, e)
}

// constInt returns the value of an integer constant SSA operand.
func constInt(v ssa.Value) (int64, bool) {
	switch x := v.(type) {
	case *ssa.Const:
		if x.Value != nil && x.Value.Kind() == constant.Int {
			return constant.Int64Val(x.Value)
		}
	case *ssa.Convert:
		return constInt(x.X)
	case *ssa.ChangeType:
		return constInt(x.X)
	}
	return 0, false
}

// lockName resolves the package-level mutex a receiver value denotes.
func lockName(v Val) string {
	if v.Loc != nil && v.Loc.Kind == LGlobal {
		return strings.TrimPrefix(v.Loc.Root, "G|") + v.Loc.Path
	}
	return ""
}

func (e *Engine) initExt2() {
	// ---- synchronisation (ghost lockset) ----
	lockOp := func(name string, level int64, acquire bool) {
		e.reg(name, name+": ghost lockset update (DRF-SC and mutual exclusion of sync trusted)", func(f *Frame, st *State, c *ssa.CallCommon, args []Val, rt types.Type, pos token.Pos) Val {
			ln := lockName(args[0])
			if ln == "" {
				f.unsupported("lock operation on a mutex that is not a package-level variable")
				return Val{T: rt}
			}
			key := "lock:" + ln
			cur, ok := st.ghost[key]
			if !ok {
				cur = Zero
			}
			if acquire {
				f.oblige(st, "LOCK", "acquire "+ln+" while already held", pos, Eq(cur, Zero))
				st.ghost[key] = IntT(level)
			} else {
				f.oblige(st, "LOCK", "release "+ln+" not held in that mode", pos, Eq(cur, IntT(level)))
				st.ghost[key] = Zero
			}
			return Val{T: rt}
		})
	}
	lockOp("(*sync.RWMutex).Lock", 2, true)
	lockOp("(*sync.RWMutex).Unlock", 2, false)
	lockOp("(*sync.RWMutex).RLock", 1, true)
	lockOp("(*sync.RWMutex).RUnlock", 1, false)
	lockOp("(*sync.Mutex).Lock", 2, true)
	lockOp("(*sync.Mutex).Unlock", 2, false)
	for _, n := range []string{"(*sync.Map).Store", "(*sync.Map).Load", "(*sync.Map).Delete", "(*sync.Map).LoadOrStore", "(*sync.Map).Range"} {
		n := n
		e.reg(n, n+": internally synchronised (trusted-concurrent); result unconstrained", func(f *Frame, st *State, c *ssa.CallCommon, args []Val, rt types.Type, pos token.Pos) Val {
			if gl := lockName(args[0]); gl != "" && f.vc.want("LOCK") {
				f.lockCheck(st, &Loc{Kind: LGlobal, Root: "G|" + gl}, strings.HasSuffix(n, "Store") || strings.HasSuffix(n, "Delete"), pos)
			}
			v := freshResult(f, st, rt, "syncmap")
			if gl := lockName(args[0]); gl == "writer.serializers" && strings.HasSuffix(n, "Load") && len(v.L) >= 2 {
				// registry invariant (RegisterSerializer is typed): the registry holds
				// native.Serializer values, possibly the nil interface
				if ip := f.vc.eng.typesPkgByName("native"); ip != nil {
					if o := ip.Scope().Lookup("Serializer"); o != nil {
						impl := f.vc.declareFun("implements|"+typeKey(o.Type()), []*Sort{SInt}, SBool)
						f.vc.fact(Or(Eq(v.L[0], Zero), mk(SBool, impl, v.L[0])))
					}
				}
			}
			return v
		})
	}

	// ---- streams: ghost position Pos[stream] ----
	posComp := func(f *Frame) string {
		f.vc.registerComp("Pos", SArr(SInt, SInt))
		return "Pos"
	}
	streamRef := func(v Val) Term {
		if len(v.L) == 2 {
			return v.L[1] // interface payload
		}
		return v.L[0]
	}
	e.regMethod("io.ReadSeeker.Seek", "ReadSeeker.Seek(off, whence): on success with (0,0) the ghost position of the stream becomes 0", func(f *Frame, st *State, c *ssa.CallCommon, args []Val, rt types.Type, pos token.Pos) Val {
		vc := f.vc
		pc := posComp(f)
		rts := resultTypes(rt)
		n := freshResult(f, st, rts[0], "seekpos")
		er := freshResult(f, st, rts[1], "err")
		s := streamRef(args[0])
		cur := vc.get(st, pc)
		newPos := vc.fresh("pos", SInt)
		vc.fact(Ge(newPos, Zero))
		zeroSeek := And(Eq(args[1].one(), Zero), Eq(args[2].one(), Zero))
		vc.fact(Imp(And(Eq(er.L[0], Zero), zeroSeek), Eq(newPos, Zero)))
		vc.set(st, pc, Store(cur, s, newPos))
		// ghost SeekFail[stream]: some Seek on the stream has reported an error
		vc.registerComp("SeekFail", SArr(SInt, SInt))
		sf := vc.get(st, "SeekFail")
		vc.set(st, "SeekFail", Store(sf, s, Ite(Eq(er.L[0], Zero), Select(sf, s), One)))
		return tupleOf(rt, n, er)
	}).mods = func(e *Engine, c *ssa.CallCommon, m *ModSet) {
		m.comps["Pos"] = SArr(SInt, SInt)
		m.comps["SeekFail"] = SArr(SInt, SInt)
	}
	consume := func(f *Frame, st *State, s Term) {
		vc := f.vc
		pc := posComp(f)
		np := vc.fresh("pos", SInt)
		vc.fact(Ge(np, Zero))
		vc.set(st, pc, Store(vc.get(st, pc), s, np))
	}
	posMods := func(e *Engine, c *ssa.CallCommon, m *ModSet) {
		m.comps["Pos"] = SArr(SInt, SInt)
		m.comps["Src"] = SArr(SInt, SInt)
		m.setAlloc()
	}
	// decoders / scanners remember their source stream in ghost Src[obj]
	mkReader := func(name, doc string, argIdx int) {
		e.reg(name, name+": "+doc, func(f *Frame, st *State, c *ssa.CallCommon, args []Val, rt types.Type, pos token.Pos) Val {
			vc := f.vc
			vc.registerComp("Src", SArr(SInt, SInt))
			r := vc.alloc(st, "reader", "H|"+name)
			vc.set(st, "Src", Store(vc.get(st, "Src"), r, streamRef(args[argIdx])))
			if _, ok := rt.Underlying().(*types.Interface); ok {
				return Val{T: rt, L: []Term{vc.typeTag(types.Typ[types.UnsafePointer]), r}}
			}
			return scalar(rt, r)
		}).mods = posMods
	}
	mkReader("encoding/json.NewDecoder", "a decoder reading from the given stream", 0)
	mkReader("bufio.NewScanner", "a scanner reading from the given stream", 0)
	mkReader("github.com/CycloneDX/cyclonedx-go.NewBOMDecoder", "a BOM decoder reading from the given stream", 0)
	readFrom := func(f *Frame, st *State, obj Term) {
		vc := f.vc
		vc.registerComp("Src", SArr(SInt, SInt))
		consume(f, st, Select(vc.get(st, "Src"), obj))
	}
	e.reg("(*encoding/json.Decoder).Decode", "Decoder.Decode(v): assigns *v (an arbitrary value of its Go type), advances the stream, returns an error or nil. The first Decode of a stream succeeds iff json.ok(stream), and then every top-level string field of *v tagged `json:\"t\"` holds json.member(stream, t) (\"\" when the member is absent)", func(f *Frame, st *State, c *ssa.CallCommon, args []Val, rt types.Type, pos token.Pos) Val {
		vc := f.vc
		vc.registerComp("Src", SArr(SInt, SInt))
		stream := Select(vc.get(st, "Src"), args[0].one())
		readFrom(f, st, args[0].one())
		er := freshResult(f, st, rt, "err")
		// v is passed as interface{}: the payload is the pointer
		if c != nil {
			if mi, ok := c.Args[1].(*ssa.MakeInterface); ok {
				p := f.val(mi.X)
				f.havocObject(st, p)
				jok := vc.declareFun("json.ok", []*Sort{SInt}, SBool)
				jm := vc.declareFun("json.member", []*Sort{SInt, SStr}, SStr)
				vc.fact(Imp(st.reach, Eq(Eq(er.L[0], Zero), mk(SBool, jok, stream))))
				if pt, ok := p.T.Underlying().(*types.Pointer); ok {
					if stt, ok := pt.Elem().Underlying().(*types.Struct); ok {
						loc := f.ptrLoc(p)
						for i := 0; i < stt.NumFields(); i++ {
							fld := stt.Field(i)
							tag := reflect.StructTag(stt.Tag(i)).Get("json")
							if j := strings.Index(tag, ","); j >= 0 {
								tag = tag[:j]
							}
							if bt, ok := fld.Type().Underlying().(*types.Basic); !ok || bt.Kind() != types.String || tag == "" || tag == "-" || loc.Kind == LArr {
								continue
							}
							fv := vc.load(st, &Loc{Kind: loc.Kind, Base: loc.Base, Idx: loc.Idx, Root: loc.Root, Path: loc.Path + "." + fld.Name(), T: fld.Type()})
							vc.fact(Imp(And(st.reach, Eq(er.L[0], Zero)), Eq(fv.one(), mk(SStr, jm, stream, StrT(tag)))))
						}
					}
				}
			}
		}
		return er
	}).mods = func(e *Engine, c *ssa.CallCommon, m *ModSet) {
		posMods(e, c, m)
		if mi, ok := c.Args[1].(*ssa.MakeInterface); ok {
			objComps(m, mi.X.Type())
		}
	}
	e.regMethod("github.com/CycloneDX/cyclonedx-go.BOMDecoder.Decode", "BOMDecoder.Decode(bom): assigns *bom to an arbitrary value of type cdx.BOM (any pointer may be nil, any slice any length), advances the stream", func(f *Frame, st *State, c *ssa.CallCommon, args []Val, rt types.Type, pos token.Pos) Val {
		readFrom(f, st, args[0].L[1])
		f.havocObject(st, args[1])
		return freshResult(f, st, rt, "err")
	}).mods = func(e *Engine, c *ssa.CallCommon, m *ModSet) {
		posMods(e, c, m)
		objComps(m, c.Args[0].Type())
	}
	e.reg("github.com/spdx/tools-golang/json.Read", "spdxjson.Read(r): returns an arbitrary *spdx.Document (non-nil when err == nil; every pointer inside may be nil, slices any length, pointer elements may be nil - except Packages and Relationships, whose entries the library itself dereferences / filters in Document.UnmarshalJSON), consumes the stream. NOTE: the library panics on packages:[null]; its totality is assumed, not checked", func(f *Frame, st *State, c *ssa.CallCommon, args []Val, rt types.Type, pos token.Pos) Val {
		stream := streamRef(args[0])
		consume(f, st, stream)
		v := valueOrError(f, st, rt, "spdxdoc")
		vc := f.vc
		// ghost: the decoded document is a function of the stream (spdxdoc(r) in contracts)
		docOf := vc.declareFun("spdx.docOf", []*Sort{SInt}, SInt)
		vc.fact(Imp(Ne(v.L[0], Zero), Eq(v.L[0], mk(SInt, docOf, stream))))
		doc := Val{T: resultTypes(rt)[0], L: v.L[:1]}
		if pt, ok := doc.T.Underlying().(*types.Pointer); ok {
			if stt, ok := pt.Elem().Underlying().(*types.Struct); ok {
				for i := 0; i < stt.NumFields(); i++ {
					fld := stt.Field(i)
					if fld.Name() != "Packages" && fld.Name() != "Relationships" {
						continue
					}
					loc := objLoc(doc.T, doc.one())
					sv := vc.load(st, &Loc{Kind: LObj, Base: loc.Base, Root: loc.Root, Path: "." + fld.Name(), T: fld.Type()})
					el := elemOf(fld.Type())
					row := Select(vc.get(st, vc.elemComps(el)[0]), sv.arr())
					j := Term{"j!q", SInt}
					vc.fact(Imp(st.reach, Forall([]Term{j}, Imp(And(Le(Zero, j), Lt(j, sv.len())), Ne(Select(row, j), Zero)), []Term{Select(row, j)})))
				}
			}
		}
		return v
	}).mods = posMods
	e.reg("(*bufio.Scanner).Split", "Scanner.Split: configuration only", func(f *Frame, st *State, c *ssa.CallCommon, args []Val, rt types.Type, pos token.Pos) Val {
		return Val{T: rt}
	})
	e.reg("(*bufio.Scanner).Scan", "Scanner.Scan: advances the stream; result unconstrained", func(f *Frame, st *State, c *ssa.CallCommon, args []Val, rt types.Type, pos token.Pos) Val {
		readFrom(f, st, args[0].one())
		return freshResult(f, st, rt, "more")
	}).mods = posMods
	e.reg("(*bufio.Scanner).Bytes", "Scanner.Bytes: a byte slice (contents unconstrained)", func(f *Frame, st *State, c *ssa.CallCommon, args []Val, rt types.Type, pos token.Pos) Val {
		return freshSlice(f, st, rt, Zero)
	}).mods = func(e *Engine, c *ssa.CallCommon, m *ModSet) {
		m.allocKind("E|uint8")
		addElemComps(m, types.Typ[types.Uint8])
	}

	// ---- encoders ----
	for _, n := range []string{"encoding/json.NewEncoder", "github.com/CycloneDX/cyclonedx-go.NewBOMEncoder"} {
		n := n
		e.reg(n, n+": returns a non-nil encoder writing to the given writer", func(f *Frame, st *State, c *ssa.CallCommon, args []Val, rt types.Type, pos token.Pos) Val {
			v := freshResult(f, st, rt, "enc")
			f.vc.fact(Ne(v.L[0], Zero))
			if len(v.L) == 2 {
				f.vc.fact(Ne(v.L[1], Zero))
			}
			return v
		})
	}
	for _, n := range []string{"(*encoding/json.Encoder).SetIndent", "(*encoding/json.Encoder).Encode"} {
		n := n
		e.reg(n, n+": writes to the encoder's writer only; reads its argument", func(f *Frame, st *State, c *ssa.CallCommon, args []Val, rt types.Type, pos token.Pos) Val {
			return freshResult(f, st, rt, "err")
		})
	}
	for _, k := range []string{"github.com/CycloneDX/cyclonedx-go.BOMEncoder.SetPretty", "github.com/CycloneDX/cyclonedx-go.BOMEncoder.EncodeVersion", "github.com/CycloneDX/cyclonedx-go.BOMEncoder.Encode"} {
		k := k
		e.regMethod(k, k+": writes to the encoder's writer only (EncodeVersion works on a copy of the BOM); result unconstrained", func(f *Frame, st *State, c *ssa.CallCommon, args []Val, rt types.Type, pos token.Pos) Val {
			return freshResult(f, st, rt, "enc")
		})
	}
	e.reg("github.com/CycloneDX/cyclonedx-go.NewBOM", "cdx.NewBOM: a fresh BOM (BOMFormat \"CycloneDX\", Version 1; every pointer field nil)", func(f *Frame, st *State, c *ssa.CallCommon, args []Val, rt types.Type, pos token.Pos) Val {
		v := f.allocVal(st, rt, "bom")
		loc := f.ptrLoc(v)
		strT := types.Typ[types.String]
		f.vc.store(st, &Loc{Kind: loc.Kind, Base: loc.Base, Root: loc.Root, Path: loc.Path + ".BOMFormat", T: strT}, scalar(strT, StrT("CycloneDX")))
		f.vc.store(st, &Loc{Kind: loc.Kind, Base: loc.Base, Root: loc.Root, Path: loc.Path + ".Version", T: intT}, scalar(intT, One))
		return v
	}).mods = func(e *Engine, c *ssa.CallCommon, m *ModSet) {
		m.allocKind(kindOfPtr(c.Signature().Results().At(0).Type()))
		objComps(m, c.Signature().Results().At(0).Type())
	}
	uf := func(names []string, doc string) {
		for _, n := range names {
			n := n
			e.reg(n, n+": "+doc, func(f *Frame, st *State, c *ssa.CallCommon, args []Val, rt types.Type, pos token.Pos) Val {
				return ufResult(f, n, args, rt)
			})
		}
	}
	uf([]string{"sigs.k8s.io/release-utils/version.GetVersionInfo"}, "pure function of its arguments (uninterpreted)")
	e.reg("github.com/spdx/tools-golang/spdx/v2/common.MakeDocElementID", "common.MakeDocElementID(docRef, eltRef): the struct {DocumentRefID: docRef, ElementRefID: eltRef, SpecialID: \"\"} (its three-line body)", func(f *Frame, st *State, c *ssa.CallCommon, args []Val, rt types.Type, pos token.Pos) Val {
		lay := layout(rt)
		out := Val{T: rt}
		for _, l := range lay {
			switch {
			case strings.HasSuffix(l.Suffix, "DocumentRefID"):
				out.L = append(out.L, args[0].one())
			case strings.HasSuffix(l.Suffix, "ElementRefID"):
				out.L = append(out.L, args[1].one())
			default:
				out.L = append(out.L, StrT(""))
			}
		}
		return out
	})
	e.reg("path/filepath.Join", "filepath.Join(dir, name): a function of its two arguments whose directory part is dir (name is a plain file name)", func(f *Frame, st *State, c *ssa.CallCommon, args []Val, rt types.Type, pos token.Pos) Val {
		vc := f.vc
		if c != nil {
			if vs, ok := varargsOf(c.Args[0]); ok && len(vs) == 2 {
				a, b := f.val(vs[0]).one(), f.val(vs[1]).one()
				jn := vc.declareFun("fs.join", []*Sort{SStr, SStr}, SStr)
				dirOf := vc.declareFun("fs.dirOf", []*Sort{SStr}, SStr)
				t := mk(SStr, jn, a, b)
				vc.fact(Eq(mk(SStr, dirOf, t), a))
				return scalar(rt, t)
			}
		}
		return freshResult(f, st, rt, "path")
	})

	// ---- protobuf ----
	e.reg("google.golang.org/protobuf/proto.Marshal", "proto.Marshal(m): reads m; returns bytes or an error", func(f *Frame, st *State, c *ssa.CallCommon, args []Val, rt types.Type, pos token.Pos) Val {
		rts := resultTypes(rt)
		b := freshSlice(f, st, rts[0], Zero)
		return tupleOf(rt, b, freshResult(f, st, rts[1], "err"))
	}).mods = func(e *Engine, c *ssa.CallCommon, m *ModSet) {
		m.allocKind("E|uint8")
		addElemComps(m, types.Typ[types.Uint8])
	}
	e.reg("google.golang.org/protobuf/proto.Unmarshal", "proto.Unmarshal(b, m): assigns *m to an arbitrary message value (sub-messages may be absent); succeeds on the empty input with an empty message", func(f *Frame, st *State, c *ssa.CallCommon, args []Val, rt types.Type, pos token.Pos) Val {
		if c != nil {
			if mi, ok := c.Args[1].(*ssa.MakeInterface); ok {
				f.havocObject(st, f.val(mi.X))
			}
		}
		return freshResult(f, st, rt, "err")
	}).mods = func(e *Engine, c *ssa.CallCommon, m *ModSet) {
		m.setAlloc()
		if mi, ok := c.Args[1].(*ssa.MakeInterface); ok {
			objComps(m, mi.X.Type())
		}
	}

	// ---- file system (effect log: ghost FS trace obligations are added by class TRACE) ----
	e.reg("os.Open", "os.Open: (file, err) with file != nil when err == nil", func(f *Frame, st *State, c *ssa.CallCommon, args []Val, rt types.Type, pos token.Pos) Val {
		return valueOrError(f, st, rt, "file")
	})
	e.reg("os.Create", "os.Create: (file, err) with file != nil when err == nil; truncates an existing file", func(f *Frame, st *State, c *ssa.CallCommon, args []Val, rt types.Type, pos token.Pos) Val {
		return valueOrError(f, st, rt, "file")
	})
	e.reg("os.Stat", "os.Stat: (info, err) with info != nil when err == nil", func(f *Frame, st *State, c *ssa.CallCommon, args []Val, rt types.Type, pos token.Pos) Val {
		return valueOrError(f, st, rt, "info")
	})
	e.reg("(*os.File).Close", "File.Close: returns an error or nil (nil receiver returns ErrInvalid)", func(f *Frame, st *State, c *ssa.CallCommon, args []Val, rt types.Type, pos token.Pos) Val {
		return freshResult(f, st, rt, "err")
	})
	e.regMethod("io/fs.FileInfo.IsDir", "FileInfo.IsDir: pure", func(f *Frame, st *State, c *ssa.CallCommon, args []Val, rt types.Type, pos token.Pos) Val {
		return freshResult(f, st, rt, "isdir")
	})
	e.reg("os.ReadFile", "os.ReadFile: (bytes, err)", func(f *Frame, st *State, c *ssa.CallCommon, args []Val, rt types.Type, pos token.Pos) Val {
		rts := resultTypes(rt)
		return tupleOf(rt, freshSlice(f, st, rts[0], Zero), freshResult(f, st, rts[1], "err"))
	}).mods = func(e *Engine, c *ssa.CallCommon, m *ModSet) {
		m.allocKind("E|uint8")
		addElemComps(m, types.Typ[types.Uint8])
	}
	e.reg("sigs.k8s.io/release-utils/util.Exists", "util.Exists(path): whether the path exists (unconstrained)", func(f *Frame, st *State, c *ssa.CallCommon, args []Val, rt types.Type, pos token.Pos) Val {
		return ufResult(f, "fs.exists", args, rt)
	})
	e.reg("os.MkdirAll", "os.MkdirAll(path, mode): creates the directory; requires a mode that leaves the directory usable by its owner (mode&0300 == 0300)", func(f *Frame, st *State, c *ssa.CallCommon, args []Val, rt types.Type, pos token.Pos) Val {
		if c != nil {
			if m, ok := constInt(c.Args[1]); ok {
				f.oblige(st, "TRACE", "C19:MkdirAll: directory mode lacks owner write/search permission", pos, BoolT(m&0o300 == 0o300))
			} else {
				f.oblige(st, "TRACE", "C19:MkdirAll: directory mode not a constant", pos, False)
			}
		}
		return freshResult(f, st, rt, "err")
	})
	e.reg("os.WriteFile", "os.WriteFile(path, data, mode): truncates and rewrites path in place; a crash during the call leaves any prefix of data (including the empty file)", func(f *Frame, st *State, c *ssa.CallCommon, args []Val, rt types.Type, pos token.Pos) Val {
		f.fsWrite(st, "WriteFile", args[0].one(), false, pos)
		return freshResult(f, st, rt, "err")
	})
	e.reg("os.Rename", "os.Rename(old, new): atomic replacement within one directory (POSIX)", func(f *Frame, st *State, c *ssa.CallCommon, args []Val, rt types.Type, pos token.Pos) Val {
		if rf := f.rootFrame(); f.vc.want("TRACE") && rf.spec != nil && rf.spec.CrashAtomic {
			dirOf := f.vc.declareFun("fs.dirOf", []*Sort{SStr}, SStr)
			f.oblige(st, "TRACE", "C20:rename is atomic only within one directory", pos, Eq(mk(SStr, dirOf, args[0].one()), mk(SStr, dirOf, args[1].one())))
		}
		f.fsWrite(st, "Rename", args[1].one(), true, pos)
		return freshResult(f, st, rt, "err")
	})
	e.reg("os.Remove", "os.Remove(path)", func(f *Frame, st *State, c *ssa.CallCommon, args []Val, rt types.Type, pos token.Pos) Val {
		f.fsWrite(st, "Remove", args[0].one(), false, pos)
		return freshResult(f, st, rt, "err")
	})
	e.reg("os.CreateTemp", "os.CreateTemp(dir, pattern): a new file in dir whose name differs from every existing entry; (file, err) with file != nil when err == nil", func(f *Frame, st *State, c *ssa.CallCommon, args []Val, rt types.Type, pos token.Pos) Val {
		v := valueOrError(f, st, rt, "tmpfile")
		// ghost: the file's name is a temp path in dir
		vc := f.vc
		isTmp := vc.declareFun("fs.isTemp", []*Sort{SStr}, SBool)
		nameOf := vc.declareFun("fs.nameOf", []*Sort{SInt}, SStr)
		dirOf := vc.declareFun("fs.dirOf", []*Sort{SStr}, SStr)
		nm := mk(SStr, nameOf, v.L[0])
		vc.fact(mk(SBool, isTmp, nm))
		vc.fact(Eq(mk(SStr, dirOf, nm), args[0].one()))
		return v
	})
	e.reg("os.OpenFile", "os.OpenFile(path, flags, mode): (file, err) with file != nil when err == nil; the file's name is path; with O_CREATE or O_TRUNC (or flags that are not a constant) the call itself creates or truncates path in place, which is a non-atomic write to that path", func(f *Frame, st *State, c *ssa.CallCommon, args []Val, rt types.Type, pos token.Pos) Val {
		v := valueOrError(f, st, rt, "file")
		vc := f.vc
		nameOf := vc.declareFun("fs.nameOf", []*Sort{SInt}, SStr)
		vc.fact(Imp(Ne(v.L[0], Zero), Eq(mk(SStr, nameOf, v.L[0]), args[0].one())))
		writes := true
		if c != nil {
			if fl, ok := constInt(c.Args[1]); ok && fl&int64(os.O_CREATE|os.O_TRUNC) == 0 {
				writes = false
			}
		}
		if writes {
			f.fsWrite(st, "OpenFile", args[0].one(), false, pos)
		}
		return v
	})
	for _, n := range []string{"(*sync/atomic.Bool).Load", "(*sync/atomic.Bool).Store", "(*sync/atomic.Bool).CompareAndSwap", "(*sync/atomic.Int32).Load", "(*sync/atomic.Int32).Store", "(*sync/atomic.Int32).Add", "(*sync/atomic.Int64).Load", "(*sync/atomic.Int64).Add"} {
		n := n
		e.reg(n, n+": atomic operation on its receiver only; result unconstrained; acquires no lock (it orders nothing but the flag itself)", func(f *Frame, st *State, c *ssa.CallCommon, args []Val, rt types.Type, pos token.Pos) Val {
			if rt == nil {
				return Val{}
			}
			if tt, ok := rt.(*types.Tuple); ok && tt.Len() == 0 {
				return Val{T: rt}
			}
			return freshResult(f, st, rt, "atomic")
		})
	}
	e.reg("(*os.File).Name", "File.Name: the path the file was opened with", func(f *Frame, st *State, c *ssa.CallCommon, args []Val, rt types.Type, pos token.Pos) Val {
		nameOf := f.vc.declareFun("fs.nameOf", []*Sort{SInt}, SStr)
		return scalar(rt, mk(SStr, nameOf, args[0].one()))
	})
	for _, n := range []string{"(*os.File).Write", "(*os.File).Sync", "(*os.File).Chmod"} {
		n := n
		e.reg(n, n+": affects only the file it is called on", func(f *Frame, st *State, c *ssa.CallCommon, args []Val, rt types.Type, pos token.Pos) Val {
			nameOf := f.vc.declareFun("fs.nameOf", []*Sort{SInt}, SStr)
			f.fsWrite(st, strings.TrimPrefix(n, "(*os.File)."), mk(SStr, nameOf, args[0].one()), false, pos)
			return freshResult(f, st, rt, "res")
		})
	}
}

// fsWrite records a mutating file-system call on path p. Under class TRACE
// with a crash contract on the root function, a non-atomic write must not
// target a protected (final entry) path.
func (f *Frame) fsWrite(st *State, op string, p Term, atomic bool, pos token.Pos) {
	vc := f.vc
	if !vc.want("TRACE") {
		return
	}
	rf := f.rootFrame()
	if rf.spec == nil || !rf.spec.CrashAtomic {
		return
	}
	isTmp := vc.declareFun("fs.isTemp", []*Sort{SStr}, SBool)
	// entries (*.protobom final paths) are never temp paths
	if atomic {
		f.oblige(st, "TRACE", "C20:crash during "+op+": atomic replacement keeps old or new entry", pos, True2())
		return
	}
	f.oblige(st, "TRACE", "C20:crash during "+op+": a non-atomic write must target a temporary path, never a stored entry", pos, mk(SBool, isTmp, p))
}

// injApp applies an uninterpreted function that is trusted to be injective in
// all its arguments: besides f(args) it declares one inverse per argument and
// emits the ground facts inv_i(f(args)) == args[i] (no quantifiers needed).
func (vc *VC) injApp(name string, args []Term, res *Sort) Term {
	var sorts []*Sort
	for _, a := range args {
		sorts = append(sorts, a.Sort)
	}
	fn := vc.declareFun(name, sorts, res)
	t := mk(res, fn, args...)
	if len(args) == 0 {
		t = Term{fn, res}
	}
	for i, a := range args {
		inv := vc.declareFun(fmt.Sprintf("%s|inv%d", name, i), []*Sort{res}, a.Sort)
		vc.fact(Eq(mk(a.Sort, inv, t), a))
	}
	return t
}

// injectiveFormats: Sprintf formats whose output determines the arguments
// (justification in the comment of each entry).
var injectiveFormats = map[string]bool{
	"%x.protobom": true, // hex digits of a fixed-size array followed by a literal suffix
	"%d:%s":       true, // decimal digits contain no ':', so the first ':' splits uniquely
	"%09d":        true, // zero-padded decimal of a non-negative int
}

// varargsOf recovers the individual arguments of a variadic call written with
// explicit arguments (the compiler's varargs array idiom).
func varargsOf(v ssa.Value) ([]ssa.Value, bool) {
	sl, ok := v.(*ssa.Slice)
	if !ok {
		if c, isC := v.(*ssa.Const); isC && c.Value == nil {
			return nil, true // no variadic arguments
		}
		return nil, false
	}
	al, ok := sl.X.(*ssa.Alloc)
	if !ok {
		return nil, false
	}
	at, ok := deref(al.Type()).Underlying().(*types.Array)
	if !ok {
		return nil, false
	}
	out := make([]ssa.Value, at.Len())
	for _, ref := range *al.Referrers() {
		ia, ok := ref.(*ssa.IndexAddr)
		if !ok {
			continue
		}
		idx, ok := constInt(ia.Index)
		if !ok || idx < 0 || idx >= at.Len() {
			return nil, false
		}
		for _, r2 := range *ia.Referrers() {
			if st, ok := r2.(*ssa.Store); ok && st.Addr == ia {
				out[idx] = st.Val
			}
		}
	}
	for _, o := range out {
		if o == nil {
			return nil, false
		}
	}
	return out, true
}

func (e *Engine) initExt3() {
	e.reg("fmt.Sprintf", "fmt.Sprintf(format, args...): with a constant format and explicit arguments, a function of the format and the argument values (injective for the formats listed in injectiveFormats); otherwise an unconstrained string", func(f *Frame, st *State, c *ssa.CallCommon, args []Val, rt types.Type, pos token.Pos) Val {
		vc := f.vc
		if c != nil {
			if fc, ok := c.Args[0].(*ssa.Const); ok && fc.Value != nil {
				format := constant.StringVal(fc.Value)
				if vs, ok := varargsOf(c.Args[1]); ok {
					var ts []Term
					okAll := true
					for _, v := range vs {
						x := v
						if mi, isMI := v.(*ssa.MakeInterface); isMI {
							x = mi.X
						}
						val := f.val(x)
						if _, isIface := x.Type().Underlying().(*types.Interface); isIface || len(val.L) == 0 {
							okAll = false
							break
						}
						ts = append(ts, val.L...)
					}
					if okAll {
						name := "sprintf|" + format
						if injectiveFormats[format] {
							return scalar(rt, vc.injApp(name, ts, SStr))
						}
						var sorts []*Sort
						for _, t := range ts {
							sorts = append(sorts, t.Sort)
						}
						fn := vc.declareFun(name, sorts, SStr)
						if len(ts) == 0 {
							return scalar(rt, Term{fn, SStr})
						}
						return scalar(rt, mk(SStr, fn, ts...))
					}
				}
			}
		}
		return freshResult(f, st, rt, "sprintf")
	}).mods = allocMods
	e.reg("crypto/sha256.Sum256", "sha256.Sum256(b): a function of the byte contents; trusted collision-free (injective)", func(f *Frame, st *State, c *ssa.CallCommon, args []Val, rt types.Type, pos token.Pos) Val {
		vc := f.vc
		name := compElem(types.Typ[types.Uint8], "")
		vc.registerComp(name, SArr(SInt, SArr(SInt, SInt)))
		row := Select(vc.get(st, name), args[0].arr())
		return Val{T: rt, L: []Term{vc.injApp("sha256", []Term{row, args[0].len()}, SInt)}}
	})
}
