package main

import (
	"fmt"
	"go/token"
	"go/types"
	"strings"

	"golang.org/x/tools/go/ssa"
)

// repeatCall models an external higher-order function that calls the closure
// cl an arbitrary number of times with arbitrary arguments: a synthetic loop
// whose body is the closure, cut with inferred (Houdini) frame invariants.
func (f *Frame) repeatCall(st *State, cl Val, pos token.Pos, label string) {
	vc := f.vc
	if cl.Fn == nil {
		f.unsupported("%s: function argument is not a static closure", label)
		return
	}
	if f.depth >= maxInlineDepth {
		f.unsupported("%s: inline depth exceeded", label)
		return
	}
	ms := vc.eng.fnMods(cl.Fn, f.depth+1, map[*ssa.Function]bool{})
	if ms.all {
		f.unsupported("%s: closure may modify anything (%s)", label, ms.why)
	}
	f.nLoops++
	l := &Loop{blocks: map[*ssa.BasicBlock]bool{}, mods: map[string]bool{}, ordinal: 100 + f.nLoops}
	for k, s := range ms.comps {
		vc.registerComp(k, s)
		l.mods[k] = true
	}
	pre := st.clone()
	l.pre = pre
	l.prePhi = map[*ssa.Phi]Val{}
	f.makeCandidates(l)
	for _, c := range l.cands {
		if o := f.oblige(pre, "CAND", c.id+" entry", pos, c.eval(pre, nil)); o != nil {
			o.Extra = map[string]string{"cand": c.id}
		}
	}
	var names []string
	for k := range l.mods {
		names = append(names, k)
	}
	sortStrings(names)
	for _, k := range names {
		vc.havoc(st, k)
		st.markDirty(k)
	}
	if ms.alloc {
		a := vc.fresh("A", SInt)
		vc.fact(Ge(a, pre.alloc))
		st.alloc = a
	}
	f.closedFacts(st, names)
	if ms.alloc {
		f.kindFacts(st, pre.alloc, ms)
		vc.mineFacts(st)
	}
	for _, c := range l.cands {
		vc.fact(Imp(c.enable, Imp(st.reach, c.eval(st, nil))))
	}
	// body
	body := st.clone()
	body.reach = vc.reachConst(And(st.reach, vc.fresh("iter", SBool)))
	var args []Val
	for _, p := range cl.Fn.Params {
		v := vc.freshVal("hof_"+p.Name(), p.Type())
		f.assumeWF(body, v)
		args = append(args, v)
	}
	f.inline(body, cl.Fn, args, cl.Bnd, pos)
	for _, c := range l.cands {
		if o := f.oblige(body, "CAND", c.id+" preserved", pos, c.eval(body, nil)); o != nil {
			o.Extra = map[string]string{"cand": c.id}
		}
	}
}

// maybeOnce models sync.Once.Do(f): f runs at most once.
func (f *Frame) maybeOnce(st *State, cl Val, pos token.Pos) {
	vc := f.vc
	if cl.Fn == nil {
		f.unsupported("once.Do: function argument is not static")
		return
	}
	run := st.clone()
	run.reach = vc.reachConst(And(st.reach, vc.fresh("first", SBool)))
	skip := st.clone()
	skip.reach = vc.reachConst(And(st.reach, Not(run.reach)))
	sub := &Frame{vc: vc, fn: cl.Fn, fname: fnDisplayName(cl.Fn), depth: f.depth + 1, parent: f, inOnce: true}
	_, out := sub.run(run, nil, cl.Bnd)
	*st = *vc.join([]*State{out, skip})
}

func sortStrings(s []string) {
	for i := 1; i < len(s); i++ {
		for j := i; j > 0 && s[j] < s[j-1]; j-- {
			s[j], s[j-1] = s[j-1], s[j]
		}
	}
}

// extFor finds the trusted contract for a static callee: exact name, then
// patterns (generated protobuf code, read-only reflection packages).
func (e *Engine) extFor(callee *ssa.Function) *ExtSpec {
	name := callee.String()
	if x := e.ext[name]; x != nil {
		return x
	}
	file := e.fset.Position(callee.Pos()).Filename
	if strings.HasSuffix(file, ".pb.go") && e.inScope(callee) {
		switch callee.Name() {
		case "String":
			if callee.Signature.Recv() != nil {
				if _, ok := callee.Signature.Recv().Type().Underlying().(*types.Basic); ok {
					tn := typeKey(callee.Signature.Recv().Type())
					x := &ExtSpec{name: name, doc: "(" + tn + ").String: EnumStringOf — a function of the enum number (injective on numbers, contains no '+'; axioms stated where used)",
						apply: func(f *Frame, st *State, c *ssa.CallCommon, args []Val, rt types.Type, pos token.Pos) Val {
							fn := f.vc.declareFun("EnumString|"+tn, []*Sort{SInt}, SStr)
							return scalar(rt, mk(SStr, fn, args[0].one()))
						}}
					e.ext[name] = x
					return x
				}
			}
		case "ProtoReflect":
			x := &ExtSpec{name: name, doc: name + ": returns a non-nil read-only reflection view of the receiver; no visible heap effect (protobuf bookkeeping fields are outside the abstract content)",
				apply: func(f *Frame, st *State, c *ssa.CallCommon, args []Val, rt types.Type, pos token.Pos) Val {
					v := freshResult(f, st, rt, "pref")
					f.vc.fact(Ne(v.L[0], Zero))
					return v
				}}
			e.ext[name] = x
			return x
		}
	}
	pkg := ""
	if callee.Pkg != nil {
		pkg = callee.Pkg.Pkg.Path()
	} else if callee.Signature.Recv() != nil {
		if n := namedOf(callee.Signature.Recv().Type()); n != nil && n.Obj().Pkg() != nil {
			pkg = n.Obj().Pkg().Path()
		}
	}
	switch pkg {
	case "google.golang.org/protobuf/reflect/protoreflect":
		x := &ExtSpec{name: name, doc: "protoreflect.*: read-only accessors; result unconstrained",
			apply: func(f *Frame, st *State, c *ssa.CallCommon, args []Val, rt types.Type, pos token.Pos) Val {
				return freshResult(f, st, rt, "prx")
			}}
		e.ext[name] = x
		return x
	}
	return nil
}

func (e *Engine) initHOF() {
	rangeDoc := "Range(f): calls f an arbitrary number of times (any arguments); no heap effect of its own"
	for _, k := range []string{"google.golang.org/protobuf/reflect/protoreflect.Message.Range", "google.golang.org/protobuf/reflect/protoreflect.Map.Range"} {
		k := k
		x := e.regMethod(k, k+": "+rangeDoc, func(f *Frame, st *State, c *ssa.CallCommon, args []Val, rt types.Type, pos token.Pos) Val {
			f.repeatCall(st, args[1], pos, k)
			return Val{T: rt}
		})
		x.mods = func(e *Engine, c *ssa.CallCommon, m *ModSet) { closureMods(e, c.Args[0], m) }
	}
	for _, k := range []string{"google.golang.org/protobuf/reflect/protoreflect.List.Len", "google.golang.org/protobuf/reflect/protoreflect.List.Get",
		"google.golang.org/protobuf/reflect/protoreflect.FieldDescriptor.FullName", "google.golang.org/protobuf/reflect/protoreflect.Map.Len"} {
		k := k
		e.regMethod(k, k+": read-only accessor; result unconstrained", func(f *Frame, st *State, c *ssa.CallCommon, args []Val, rt types.Type, pos token.Pos) Val {
			return freshResult(f, st, rt, "prx")
		})
	}
	x := e.reg("(*sync.Once).Do", "(*sync.Once).Do(f): runs f at most once, atomically with respect to other Do calls", func(f *Frame, st *State, c *ssa.CallCommon, args []Val, rt types.Type, pos token.Pos) Val {
		f.maybeOnce(st, args[1], pos)
		return Val{T: rt}
	})
	x.mods = func(e *Engine, c *ssa.CallCommon, m *ModSet) { closureMods(e, c.Args[1], m) }
	y := e.reg("(*regexp.Regexp).ReplaceAllStringFunc", "ReplaceAllStringFunc(s,f): calls f an arbitrary number of times; result is a string built from s and f's results", func(f *Frame, st *State, c *ssa.CallCommon, args []Val, rt types.Type, pos token.Pos) Val {
		f.repeatCall(st, args[2], pos, "ReplaceAllStringFunc")
		return freshResult(f, st, rt, "repl")
	})
	y.mods = func(e *Engine, c *ssa.CallCommon, m *ModSet) { closureMods(e, c.Args[2], m) }
}

func closureMods(e *Engine, v ssa.Value, m *ModSet) {
	m.setAlloc()
	switch x := v.(type) {
	case *ssa.MakeClosure:
		m.add(e.fnMods(x.Fn.(*ssa.Function), 1, map[*ssa.Function]bool{}))
	case *ssa.Function:
		m.add(e.fnMods(x, 1, map[*ssa.Function]bool{}))
	default:
		m.all = true
		m.why = fmt.Sprintf("closure argument %s not static", v.Name())
	}
}
