package main

import (
	"fmt"
	"go/types"
	"strings"
)

// Leaf is one scalar component of a Go value in the flattened encoding.
type Leaf struct {
	Suffix string
	Sort   *Sort
	// Ref says the leaf holds a heap reference (pointer, map, slice backing
	// array, closure, interface payload).
	Ref bool
	// T is the Go type of the value the leaf belongs to (innermost).
	T types.Type
}

var layoutCache = map[string][]Leaf{}

func isProtoInternalField(f *types.Var) bool {
	switch f.Name() {
	case "state", "sizeCache", "unknownFields":
		return !f.Exported()
	}
	return false
}

// layout flattens a type into scalar leaves.
func layout(t types.Type) []Leaf {
	key := types.TypeString(t, nil)
	if l, ok := layoutCache[key]; ok {
		return l
	}
	l := layout0(t)
	layoutCache[key] = l
	return l
}

func layout0(t types.Type) []Leaf {
	switch u := t.Underlying().(type) {
	case *types.Basic:
		switch {
		case u.Info()&types.IsBoolean != 0:
			return []Leaf{{"", SBool, false, t}}
		case u.Info()&types.IsString != 0:
			return []Leaf{{"", SStr, false, t}}
		case u.Kind() == types.UnsafePointer:
			return []Leaf{{"", SInt, true, t}}
		case u.Kind() == types.UntypedNil:
			return []Leaf{{"", SInt, true, t}}
		default:
			return []Leaf{{"", SInt, false, t}}
		}
	case *types.Pointer, *types.Map, *types.Chan, *types.Signature:
		return []Leaf{{"", SInt, true, t}}
	case *types.Slice:
		return []Leaf{{"$arr", SInt, true, t}, {"$len", SInt, false, t}, {"$cap", SInt, false, t}}
	case *types.Interface:
		return []Leaf{{"$tag", SInt, false, t}, {"$val", SInt, true, t}}
	case *types.Array:
		// value arrays are opaque handles
		return []Leaf{{"$arrval", SInt, false, t}}
	case *types.Struct:
		var out []Leaf
		for i := 0; i < u.NumFields(); i++ {
			f := u.Field(i)
			if isProtoInternalField(f) {
				continue
			}
			for _, l := range layout(f.Type()) {
				out = append(out, Leaf{"." + f.Name() + l.Suffix, l.Sort, l.Ref, l.T})
			}
		}
		return out
	case *types.Tuple:
		var out []Leaf
		for i := 0; i < u.Len(); i++ {
			for _, l := range layout(u.At(i).Type()) {
				out = append(out, Leaf{fmt.Sprintf("#%d%s", i, l.Suffix), l.Sort, l.Ref, l.T})
			}
		}
		return out
	case *types.TypeParam:
		panic("layout of type parameter " + t.String())
	}
	panic("layout: unsupported type " + t.String())
}

// fieldRange returns the [lo,hi) leaf range of field i in struct type t, and
// the suffix prefix of the field.
func fieldRange(t types.Type, idx int) (lo, hi int, name string) {
	st := t.Underlying().(*types.Struct)
	pos := 0
	for i := 0; i < st.NumFields(); i++ {
		f := st.Field(i)
		n := 0
		if !isProtoInternalField(f) {
			n = len(layout(f.Type()))
		}
		if i == idx {
			return pos, pos + n, "." + f.Name()
		}
		pos += n
	}
	panic("fieldRange")
}

func tupleRange(t *types.Tuple, idx int) (lo, hi int) {
	pos := 0
	for i := 0; i < t.Len(); i++ {
		n := len(layout(t.At(i).Type()))
		if i == idx {
			return pos, pos + n
		}
		pos += n
	}
	panic("tupleRange")
}

func shortQual(p *types.Package) string {
	path := p.Path()
	path = strings.TrimPrefix(path, "github.com/protobom/protobom/pkg/")
	path = strings.TrimPrefix(path, "github.com/")
	return path
}

// typeKey names a type for heap component names.
func typeKey(t types.Type) string {
	return types.TypeString(t, shortQual)
}

func isStruct(t types.Type) bool {
	_, ok := t.Underlying().(*types.Struct)
	return ok
}

func isArray(t types.Type) bool {
	_, ok := t.Underlying().(*types.Array)
	return ok
}

func deref(t types.Type) types.Type {
	if p, ok := t.Underlying().(*types.Pointer); ok {
		return p.Elem()
	}
	panic("deref of non-pointer " + t.String())
}

func elemOf(t types.Type) types.Type {
	switch u := t.Underlying().(type) {
	case *types.Slice:
		return u.Elem()
	case *types.Array:
		return u.Elem()
	case *types.Pointer:
		return elemOf(u.Elem())
	case *types.Basic:
		if u.Info()&types.IsString != 0 {
			return types.Typ[types.Uint8]
		}
	}
	panic("elemOf " + t.String())
}

func keySort(t types.Type) *Sort {
	l := layout(t)
	if len(l) != 1 {
		panic("unsupported map key type " + t.String())
	}
	return l[0].Sort
}

// Heap component names.
func compField(structT types.Type, suffix string) string {
	return "H|" + typeKey(structT) + "|" + suffix
}
func compCell(t types.Type, suffix string) string   { return "C|" + typeKey(t) + "|" + suffix }
func compElem(t types.Type, suffix string) string   { return "E|" + typeKey(t) + "|" + suffix }
func compMapDom(m types.Type) string                { return "Md|" + typeKey(m) }
func compMapVal(m types.Type, suffix string) string { return "Mv|" + typeKey(m) + "|" + suffix }
func compMapSize(m types.Type) string               { return "Ms|" + typeKey(m) }
func compGlobal(name, suffix string) string         { return "G|" + name + "|" + suffix }
