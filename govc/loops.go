package main

import (
	"fmt"
	"go/types"
	"sort"
	"strings"

	"golang.org/x/tools/go/ssa"
)

// ---- syntactic modification sets ----

// ModSet is the set of heap components a piece of code may write.
type ModSet struct {
	globals []string       // package variables (component prefixes) named in assigns clauses
	kinds map[string]bool // allocation kinds
	comps map[string]*Sort
	alloc bool
	all   bool // dynamic call without contract: anything may change
	why   string
}

func newModSet() *ModSet { return &ModSet{comps: map[string]*Sort{}, kinds: map[string]bool{}} }

func (m *ModSet) allocKind(k string) {
	m.setAlloc()
	m.kinds[k] = true
}

func (m *ModSet) setAlloc() {
	m.alloc = true
	m.comps["Ty"] = SArr(SInt, SInt)
	m.comps["Mine"] = SArr(SInt, SBool)
}

func (m *ModSet) add(o *ModSet) {
	for k, v := range o.comps {
		m.comps[k] = v
	}
	for k := range o.kinds {
		m.kinds[k] = true
	}
	m.alloc = m.alloc || o.alloc
	if o.all && !m.all {
		m.all = true
		m.why = o.why
	}
}

// staticRoot resolves the component root/path a pointer-typed SSA value
// addresses, following FieldAddr/IndexAddr chains.
func staticRoot(v ssa.Value) (kind int, root, path string, t types.Type) {
	switch x := v.(type) {
	case *ssa.FieldAddr:
		k, r, p, bt := staticRoot(x.X)
		st := bt.Underlying().(*types.Struct)
		return k, r, p + "." + st.Field(x.Field).Name(), st.Field(x.Field).Type()
	case *ssa.IndexAddr:
		el := elemOf(x.X.Type())
		return LElem, "E|" + typeKey(el), "", el
	case *ssa.Global:
		return LGlobal, "G|" + x.Pkg.Pkg.Name() + "." + x.Name(), "", deref(x.Type())
	}
	el := deref(v.Type())
	if isStruct(el) {
		return LObj, "H|" + typeKey(el), "", el
	}
	if isArray(el) {
		return LArr, "E|" + typeKey(elemOf(el)), "", el
	}
	return LObj, "C|" + typeKey(el), "", el
}

func addLocComps(m *ModSet, kind int, root, path string, t types.Type) {
	for _, lf := range layout(t) {
		name := root + "|" + path + lf.Suffix
		noteRefComp(name, lf)
		switch kind {
		case LObj:
			m.comps[name] = SArr(SInt, lf.Sort)
		case LElem:
			m.comps[name] = SArr(SInt, SArr(SInt, lf.Sort))
		case LGlobal:
			m.comps[name] = lf.Sort
		}
	}
}

func addElemComps(m *ModSet, el types.Type) {
	for _, lf := range layout(el) {
		noteRefComp(compElem(el, lf.Suffix), lf)
		m.comps[compElem(el, lf.Suffix)] = SArr(SInt, SArr(SInt, lf.Sort))
	}
}

func addMapComps(m *ModSet, mt types.Type) {
	mm := mt.Underlying().(*types.Map)
	ks := keySort(mm.Key())
	m.comps[compMapDom(mt)] = SArr(SInt, SArr(ks, SBool))
	m.comps[compMapSize(mt)] = SArr(SInt, SInt)
	for _, lf := range layout(mm.Elem()) {
		noteRefComp(compMapVal(mt, lf.Suffix), lf)
		m.comps[compMapVal(mt, lf.Suffix)] = SArr(SInt, SArr(ks, lf.Sort))
	}
}

// instrMods computes what one instruction may write.
func (e *Engine) instrMods(in ssa.Instruction, depth int, stack map[*ssa.Function]bool) *ModSet {
	m := newModSet()
	switch x := in.(type) {
	case *ssa.Alloc:
		m.allocKind(kindOfPtr(x.Type()))
		el := deref(x.Type())
		if at, ok := el.Underlying().(*types.Array); ok {
			addElemComps(m, at.Elem())
		} else {
			k, r, p, t := staticRoot(x)
			addLocComps(m, k, r, p, t)
		}
	case *ssa.Store:
		k, r, p, t := staticRoot(x.Addr)
		addLocComps(m, k, r, p, t)
	case *ssa.MapUpdate:
		addMapComps(m, x.Map.Type())
	case *ssa.MakeMap:
		m.allocKind("M|" + typeKey(x.Type()))
		addMapComps(m, x.Type())
	case *ssa.MakeSlice:
		m.allocKind("E|" + typeKey(elemOf(x.Type())))
		addElemComps(m, elemOf(x.Type()))
	case *ssa.MakeClosure:
		m.allocKind("fn")
	case *ssa.Convert:
		if isByteSlice(x.Type().Underlying()) {
			m.allocKind("E|uint8")
			addElemComps(m, types.Typ[types.Uint8])
		}
	case *ssa.Range:
		if mt, ok := x.X.Type().Underlying().(*types.Map); ok {
			_ = mt
			m.comps[fmt.Sprintf("%s|d%d", rangeKey(x), depth)] = SArr(keySort(mt.Key()), SBool)
		}
	case *ssa.Next:
		if rg, ok := x.Iter.(*ssa.Range); ok {
			if mt, ok := rg.X.Type().Underlying().(*types.Map); ok {
				m.comps[fmt.Sprintf("%s|d%d", rangeKey(rg), depth)] = SArr(keySort(mt.Key()), SBool)
			}
		}
	case *ssa.Call:
		m.add(e.callMods(x.Common(), depth, stack))
	case *ssa.Defer:
		m.add(e.callMods(&x.Call, depth, stack))
	}
	return m
}

// callMods computes what a call may write.
func (e *Engine) callMods(c *ssa.CallCommon, depth int, stack map[*ssa.Function]bool) *ModSet {
	m := newModSet()
	if b, ok := c.Value.(*ssa.Builtin); ok {
		switch b.Name() {
		case "append":
			m.allocKind("E|" + typeKey(elemOf(c.Args[0].Type())))
			addElemComps(m, elemOf(c.Args[0].Type()))
		case "delete":
			addMapComps(m, c.Args[0].Type())
		case "copy":
			addElemComps(m, elemOf(c.Args[0].Type()))
		}
		return m
	}
	callee := c.StaticCallee()
	if callee == nil {
		if mc, ok := c.Value.(*ssa.MakeClosure); ok {
			callee = mc.Fn.(*ssa.Function)
		}
	}
	if callee == nil {
		if c.IsInvoke() {
			if is := e.specs.ifaceSpec(c.Value.Type(), c.Method.Name()); is != nil {
				m.add(e.specMods(is))
				return m
			}
			if ext := e.extInvoke(c); ext != nil {
				m.add(ext.modsFor(e, c))
				return m
			}
		} else if ts := e.specs.funcTypeSpec(c.Value.Type()); ts != nil {
			m.add(e.specMods(ts))
			return m
		}
		m.all = true
		m.why = "dynamic call " + c.String()
		m.setAlloc()
		return m
	}
	if ext := e.extFor(callee); ext != nil {
		m.add(ext.modsFor(e, c))
		return m
	}
	if !e.inScope(callee) {
		if callee.Synthetic != "" && callee.Blocks != nil {
			m.add(e.fnMods(callee, depth+1, stack))
			return m
		}
		// unknown external: fail closed at translation time; here assume alloc only
		m.setAlloc()
		return m
	}
	m.add(e.fnMods(callee, depth+1, stack))
	// closures passed to higher-order externals are accounted by the ext entry
	return m
}

// specMods: mod set of a contract-only callee (interface / function type).
func (e *Engine) specMods(s *FuncSpec) *ModSet {
	m := newModSet()
	m.setAlloc()
	if !s.HasAssigns {
		m.all = true
		m.why = "contract " + s.Name + " has no assigns clause"
		return m
	}
	pkg := e.typesPkgByName(s.Pkg)
	env := &SpecEnv{f: &Frame{vc: &VC{eng: e}}, pkg: pkg}
	ptypes := map[string]types.Type{}
	for i, n := range s.ParamNames {
		if i < len(s.ParamTypes) && s.ParamTypes[i] != "" {
			if t := env.resolveType(s.ParamTypes[i]); t != nil {
				ptypes[n] = t
			}
		}
	}
	if fn := e.funcs[s.Name]; fn != nil {
		for _, p := range fn.Params {
			ptypes[p.Name()] = p.Type()
		}
	}
	// package scope for globals: smuggle any named type of the package
	if pkg != nil {
		for _, n := range pkg.Scope().Names() {
			if tn, ok := pkg.Scope().Lookup(n).(*types.TypeName); ok {
				if nm, ok := tn.Type().(*types.Named); ok {
					ptypes["\x00pkg"] = nm
					break
				}
			}
		}
	}
	for _, a := range s.Assigns {
		if !e.staticAssignComps(m, a.Expr, ptypes, pkg) {
			m.all = true
			m.why = "assigns target " + a.Text + " of " + s.Name + " cannot be typed statically"
		}
	}
	return m
}

// staticType types a contract expression built from parameters, fields,
// dereferences (enough for assigns clauses).
func (e *Engine) staticType(x Expr, ptypes map[string]types.Type) types.Type {
	switch n := x.(type) {
	case *EIdent:
		if t, ok := ptypes[n.Name]; ok {
			return t
		}
		if pkg, ok := ptypes["\x00pkg"]; ok {
			if nm, ok := pkg.(*types.Named); ok && nm.Obj().Pkg() != nil {
				if o := nm.Obj().Pkg().Scope().Lookup(n.Name); o != nil {
					if v, ok := o.(*types.Var); ok {
						return v.Type()
					}
				}
			}
		}
		return nil
	case *EField:
		t := e.staticType(n.X, ptypes)
		if t == nil {
			return nil
		}
		if p, ok := t.Underlying().(*types.Pointer); ok {
			t = p.Elem()
		}
		st, ok := t.Underlying().(*types.Struct)
		if !ok {
			return nil
		}
		for i := 0; i < st.NumFields(); i++ {
			if st.Field(i).Name() == n.Name {
				return st.Field(i).Type()
			}
		}
	case *EUn:
		if n.Op == "*" {
			if t := e.staticType(n.X, ptypes); t != nil {
				if p, ok := t.Underlying().(*types.Pointer); ok {
					return p.Elem()
				}
			}
		}
	}
	return nil
}

func (e *Engine) staticAssignComps(m *ModSet, x Expr, ptypes map[string]types.Type, pkg *types.Package) bool {
	if c, ok := x.(*ECall); ok {
		if id, ok := c.Fun.(*EIdent); ok && id.Name == "global" && len(c.Args) == 1 {
			name := exprText(c.Args[0])
			if !strings.Contains(name, ".") && pkg != nil {
				name = pkg.Name() + "." + name
			}
			// the global's components are registered when it is first used
			m.globals = append(m.globals, "G|"+name)
			return true
		}
	}
	if c, ok := x.(*ECall); ok {
		if id, ok := c.Fun.(*EIdent); ok && id.Name == "anyelems" && len(c.Args) == 1 {
			env := &SpecEnv{f: &Frame{vc: &VC{eng: e}}, pkg: pkg}
			if t := env.resolveType(exprText(c.Args[0])); t != nil {
				addElemComps(m, t)
				return true
			}
			return false
		}
	}
	if s, ok := x.(*EStar); ok {
		if ix, ok := s.X.(*EIndex); ok && ix.I == nil {
			t := e.staticType(ix.X, ptypes)
			if t == nil {
				return false
			}
			switch u := t.Underlying().(type) {
			case *types.Slice:
				addElemComps(m, u.Elem())
				return true
			case *types.Map:
				addMapComps(m, t)
				return true
			}
			return false
		}
		t := e.staticType(s.X, ptypes)
		if t == nil {
			return false
		}
		if _, ok := t.Underlying().(*types.Pointer); !ok {
			return false
		}
		objComps(m, t)
		return true
	}
	if fe, ok := x.(*EField); ok {
		bt := e.staticType(fe.X, ptypes)
		ft := e.staticType(x, ptypes)
		if bt == nil || ft == nil {
			return false
		}
		if p, ok := bt.Underlying().(*types.Pointer); ok {
			bt = p.Elem()
		}
		addLocComps(m, LObj, "H|"+typeKey(bt), "."+fe.Name, ft)
		return true
	}
	return false
}

var fnModsCache = map[string]*ModSet{}

func (e *Engine) fnMods(fn *ssa.Function, depth int, stack map[*ssa.Function]bool) *ModSet {
	key := fmt.Sprintf("%s@%d", fn.String(), depth)
	if m, ok := fnModsCache[key]; ok {
		return m
	}
	if stack[fn] || depth > 12 {
		return newModSet()
	}
	stack[fn] = true
	defer delete(stack, fn)
	m := newModSet()
	for _, b := range fn.Blocks {
		for _, in := range b.Instrs {
			m.add(e.instrMods(in, depth, stack))
		}
	}
	for _, af := range fn.AnonFuncs {
		m.add(e.fnMods(af, depth, stack))
	}
	if len(stack) == 1 {
		fnModsCache[key] = m
	}
	return m
}

func (f *Frame) loopMods(l *Loop) {
	ms := newModSet()
	for b := range l.blocks {
		for _, in := range b.Instrs {
			// (an empty stack: a recursive call to f.fn inside the loop contributes the
			// whole modification set of f.fn - the least fixpoint is reached because
			// fnMods treats the nested recursive call as adding nothing new)
			ms.add(f.vc.eng.instrMods(in, f.depth, map[*ssa.Function]bool{}))
		}
	}
	for k, s := range ms.comps {
		f.vc.registerComp(k, s)
		l.mods[k] = true
	}
	l.modAll = ms.all
	l.modset = ms
	if ms.all {
		f.unsupported("loop %d contains %s", l.ordinal, ms.why)
	}
}

// ---- loop entry / back edge ----

func (f *Frame) enterLoop(l *Loop, pre *State, prePhi map[*ssa.Phi]Val) *State {
	vc := f.vc
	l.pre = pre
	l.prePhi = prePhi
	l.ordinal = f.loopOrdinal(l)
	f.makeCandidates(l)
	// user invariants on entry
	for _, inv := range l.userInv {
		t := f.evalLoopInv(l, inv, pre, prePhi)
		f.oblige(pre, "INV", fmt.Sprintf("loop %d entry: %s", l.ordinal, inv.Text), l.header.Instrs[0].Pos(), t)
	}
	for _, c := range l.cands {
		o := f.oblige(pre, "CAND", c.id+" entry", l.header.Instrs[0].Pos(), c.eval(pre, prePhi))
		if o != nil {
			o.Extra = map[string]string{"cand": c.id}
		} else {
			// trivially true on entry
		}
	}
	// havoc
	hdr := pre.clone()
	var names []string
	for k := range l.mods {
		names = append(names, k)
	}
	sort.Strings(names)
	for _, k := range names {
		vc.havoc(hdr, k)
		hdr.markDirty(k)
	}
	if l.modset == nil || l.modset.alloc {
		a := vc.fresh("A", SInt)
		vc.fact(Ge(a, pre.alloc))
		hdr.alloc = a
	}
	for k := range hdr.ghost {
		if strings.HasPrefix(k, "lock:") || strings.HasPrefix(k, "pos:") {
			// ghost state modified in loops is havocked conservatively
			if f.loopTouchesGhost(l, k) {
				hdr.ghost[k] = vc.fresh("g_"+k, hdr.ghost[k].Sort)
			}
		}
	}
	hdrPhi := map[*ssa.Phi]Val{}
	for _, p := range l.phis {
		v := vc.freshVal(f.valName(p), p.Type())
		hdrPhi[p] = v
		f.vals[p] = v
	}
	l.hdr = hdr
	l.hdrPhi = hdrPhi
	f.closedFacts(hdr, names)
	if ms := l.modset; ms != nil && ms.alloc {
		f.kindFacts(hdr, pre.alloc, ms)
		vc.mineFacts(hdr)
	}
	for _, p := range l.phis {
		f.assumeWF(hdr, hdrPhi[p])
	}
	vc.fsAnchor = true
	for _, inv := range l.userInv {
		vc.fact(Imp(hdr.reach, f.evalLoopInv(l, inv, hdr, hdrPhi)))
	}
	vc.fsAnchor = false
	for _, c := range l.cands {
		vc.fact(Imp(c.enable, Imp(hdr.reach, c.eval(hdr, hdrPhi))))
	}
	return hdr
}

func (f *Frame) loopTouchesGhost(l *Loop, k string) bool {
	lock := strings.HasPrefix(k, "lock:")
	for b := range l.blocks {
		for _, in := range b.Instrs {
			c, ok := in.(ssa.CallInstruction)
			if !ok {
				continue
			}
			callee := c.Common().StaticCallee()
			if callee == nil {
				// dynamic / interface callees are lock-balanced by contract;
				// they may move stream positions
				if !lock {
					return true
				}
				continue
			}
			if lock {
				if callsLockOps(callee, map[*ssa.Function]bool{}) {
					return true
				}
				continue
			}
			s := callee.String()
			if strings.Contains(s, "Seek") || strings.Contains(s, "Decode") || strings.Contains(s, "Scan") || strings.Contains(s, "Read") {
				return true
			}
		}
	}
	return false
}

var lockOpsCache = map[*ssa.Function]bool{}

// callsLockOps: fn (transitively, through static callees with bodies) calls a
// sync mutex operation.
func callsLockOps(fn *ssa.Function, seen map[*ssa.Function]bool) bool {
	if v, ok := lockOpsCache[fn]; ok {
		return v
	}
	if seen[fn] {
		return false
	}
	seen[fn] = true
	s := fn.String()
	if strings.HasPrefix(s, "(*sync.RWMutex).") || strings.HasPrefix(s, "(*sync.Mutex).") {
		lockOpsCache[fn] = true
		return true
	}
	res := false
	if fn.Pkg != nil && strings.HasPrefix(fn.Pkg.Pkg.Path(), "github.com/protobom/protobom") {
		for _, b := range fn.Blocks {
			for _, in := range b.Instrs {
				if c, ok := in.(ssa.CallInstruction); ok {
					if callee := c.Common().StaticCallee(); callee != nil && callsLockOps(callee, seen) {
						res = true
					}
				}
			}
		}
		for _, af := range fn.AnonFuncs {
			if callsLockOps(af, seen) {
				res = true
			}
		}
	}
	lockOpsCache[fn] = res
	return res
}

func (f *Frame) loopOrdinal(l *Loop) int { return l.ordinal }

func (f *Frame) backEdge(l *Loop, from *ssa.BasicBlock, st *State) {
	phi := map[*ssa.Phi]Val{}
	idx := predIndex(l.header, from)
	for _, p := range l.phis {
		phi[p] = f.val(p.Edges[idx])
	}
	pos := l.header.Instrs[0].Pos()
	for _, inv := range l.userInv {
		t := f.evalLoopInv(l, inv, st, phi)
		f.oblige(st, "INV", fmt.Sprintf("loop %d preserved: %s", l.ordinal, inv.Text), pos, t)
	}
	for _, c := range l.cands {
		o := f.oblige(st, "CAND", c.id+" preserved", pos, c.eval(st, phi))
		if o != nil {
			o.Extra = map[string]string{"cand": c.id}
		}
	}
	if f.vc.want("TERM") {
		f.termCheck(l, st, phi, pos)
	}
}

// closedFacts: memory-model truths about havocked reference components: every
// stored reference lies below the allocator, slices are well-formed.
func (f *Frame) closedFacts(st *State, names []string) {
	vc := f.vc
	for _, k := range names {
		if !isRefComp(k) {
			continue
		}
		c := vc.get(st, k)
		r := Term{"r!q", SInt}
		switch {
		case strings.HasPrefix(k, "H|") || strings.HasPrefix(k, "C|"):
			e := Select(c, r)
			vc.fact(Forall([]Term{r}, And(Le(Zero, e), Lt(e, st.alloc)), []Term{e}))
		case strings.HasPrefix(k, "E|"):
			j := Term{"j!q", SInt}
			e := Select(Select(c, r), j)
			vc.fact(Forall([]Term{r, j}, And(Le(Zero, e), Lt(e, st.alloc)), []Term{e}))
		case strings.HasPrefix(k, "Mv|"):
			kk := Term{"k!q", c.Sort.V.K}
			e := Select(Select(c, r), kk)
			vc.fact(Forall([]Term{r, kk}, And(Le(Zero, e), Lt(e, st.alloc)), []Term{e}))
		}
	}
}

// isRefComp says whether a component stores heap references (pointer, map or
// slice backing-array leaves).
func isRefComp(name string) bool {
	if strings.HasPrefix(name, "Md|") || strings.HasPrefix(name, "Ms|") || strings.HasPrefix(name, "V|") || strings.HasPrefix(name, "G|") {
		return false
	}
	return refCompCache[name]
}

var refCompCache = map[string]bool{}

// noteRefComps records which registered components carry references; called
// when components are created from a typed location.
func noteRefComp(name string, l Leaf) {
	if l.Ref {
		switch l.T.Underlying().(type) {
		case *types.Pointer, *types.Map:
			refCompCache[name] = true
		case *types.Slice:
			if strings.HasSuffix(l.Suffix, "$arr") {
				refCompCache[name] = true
			}
		}
	}
}

// ---- Houdini candidates ----

func (f *Frame) makeCandidates(l *Loop) {
	vc := f.vc
	if !vc.want("CAND") {
		return
	}
	mkc := func(parent, id string, ev func(st *State, phi map[*ssa.Phi]Val) Term) string {
		id = fmt.Sprintf("%s/L%d/%s", f.oblFn(), l.ordinal, id)
		en := vc.declare("en|"+id, SBool)
		l.cands = append(l.cands, &Cand{id: id, enable: en, eval: ev, parent: parent})
		vc.eng.candEnable[id] = en
		if parent != "" {
			vc.eng.candParent[id] = parent
		}
		return id
	}
	mk1 := func(id string, ev func(st *State, phi map[*ssa.Phi]Val) Term) { mkc("", id, ev) }
	pre := l.pre
	entry := f.rootFrame().entry
	var names []string
	for k := range l.mods {
		names = append(names, k)
	}
	sort.Strings(names)
	// per-component evaluators, grouped by the kind of object they live in
	type evf = func(st *State, phi map[*ssa.Phi]Val) Term
	groups := map[string][][2]any{} // template|root -> [(comp, eval)]
	var gorder []string
	addG := func(tmpl, k string, ev evf) {
		root := kindOfComp(k)
		if root == "" {
			root = k
		}
		key := tmpl + ":" + root
		if _, ok := groups[key]; !ok {
			gorder = append(gorder, key)
		}
		groups[key] = append(groups[key], [2]any{k, ev})
	}
	for _, k := range names {
		k := k
		s := vc.compSort(k)
		if s.Name != "Array" || !s.K.Eq(SInt) || strings.HasPrefix(k, "V|") {
			continue
		}
		preC := vc.get(pre, k)
		entC := vc.get(entry, k)
		preA := pre.alloc
		// objects existing before the function are unchanged w.r.t. function entry
		addG("frame0", k, func(st *State, _ map[*ssa.Phi]Val) Term {
			r := Term{"r!q", SInt}
			cur := vc.get(st, k)
			return Forall([]Term{r}, Imp(Lt(r, vc.A0), Eq(Select(cur, r), Select(entC, r))), []Term{Select(cur, r)})
		})
		// the fresh region is closed: objects allocated by this function hold
		// only fresh-or-nil references in this component
		if isRefComp(k) {
			addG("own", k, func(st *State, _ map[*ssa.Phi]Val) Term {
				r := Term{"r!q", SInt}
				cur := vc.get(st, k)
				vc.registerComp("Ty", SArr(SInt, SInt))
				vc.registerComp("Mine", SArr(SInt, SBool))
				fresh := func(e Term) Term { return Or(Eq(e, Zero), Select(vc.get(st, "Mine"), e)) }
				mine := And(Select(vc.get(st, "Mine"), r), Eq(Select(vc.get(st, "Ty"), r), vc.kindTag(kindOfComp(k))))
				switch {
				case strings.HasPrefix(k, "E|"):
					j := Term{"j!q", SInt}
					e := Select(Select(cur, r), j)
					return Forall([]Term{r, j}, Imp(mine, fresh(e)), []Term{e})
				case strings.HasPrefix(k, "Mv|"):
					kk := Term{"k!q", cur.Sort.V.K}
					e := Select(Select(cur, r), kk)
					return Forall([]Term{r, kk}, Imp(mine, fresh(e)), []Term{e})
				}
				e := Select(cur, r)
				return Forall([]Term{r}, Imp(mine, fresh(e)), []Term{e})
			})
		}
		// objects existing before the loop are unchanged w.r.t. loop entry
		addG("frameL", k, func(st *State, _ map[*ssa.Phi]Val) Term {
			r := Term{"r!q", SInt}
			cur := vc.get(st, k)
			return Forall([]Term{r}, Imp(Lt(r, preA), Eq(Select(cur, r), Select(preC, r))), []Term{Select(cur, r)})
		})
	}
	// arrays that existed before the loop, other than those of loop-carried
	// slices, are unchanged
	for _, k := range names {
		k := k
		if !strings.HasPrefix(k, "E|") {
			continue
		}
		var sl []*ssa.Phi
		for _, p := range l.phis {
			if st, ok := p.Type().Underlying().(*types.Slice); ok && strings.HasPrefix(k, "E|"+typeKey(st.Elem())+"|") {
				sl = append(sl, p)
			}
		}
		// arrays of slices stored in fields of objects defined outside the loop
		// and appended to inside it: their pre-loop array may be written in place
		var preArrs []Term
		if l.header != nil {
			for b := range l.blocks {
				for _, in := range b.Instrs {
					call, ok := in.(*ssa.Call)
					if !ok {
						continue
					}
					bi, ok := call.Call.Value.(*ssa.Builtin)
					if !ok || bi.Name() != "append" {
						continue
					}
					st0, isSl := call.Call.Args[0].Type().Underlying().(*types.Slice)
					if !isSl || !strings.HasPrefix(k, "E|"+typeKey(st0.Elem())+"|") {
						continue
					}
					ld, ok := call.Call.Args[0].(*ssa.UnOp)
					if !ok {
						continue
					}
					fa, ok := ld.X.(*ssa.FieldAddr)
					if !ok {
						continue
					}
					if def, isIn := fa.X.(ssa.Instruction); isIn && l.blocks[def.Block()] {
						continue
					}
					bv, have := f.vals[fa.X]
					if !have || len(bv.L) != 1 {
						continue
					}
					_, root, path, ft := staticRoot(fa)
					_ = ft
					comp := root + "|" + path + "$arr"
					if _, reg := vc.comps[comp]; reg {
						preArr := Select(vc.get(pre, comp), bv.one())
						preArrs = append(preArrs, preArr)
						key := "fieldArrInitOrNew:" + comp + ":" + fa.X.Name()
						if !vc.declared["cand:"+f.oblFn()+fmt.Sprint(l.ordinal)+key] {
							vc.declared["cand:"+f.oblFn()+fmt.Sprint(l.ordinal)+key] = true
							comp, base, preA := comp, bv.one(), pre.alloc
							mk1(key, func(st *State, _ map[*ssa.Phi]Val) Term {
								cur := Select(vc.get(st, comp), base)
								return Or(Eq(cur, preArr), Ge(cur, preA))
							})
						}
					}
				}
			}
		}
		if len(sl) == 0 && len(preArrs) == 0 {
			continue
		}
		preC := vc.get(pre, k)
		preA := pre.alloc
		mk1("frameLx:"+k, func(st *State, phi map[*ssa.Phi]Val) Term {
			r := Term{"r!q", SInt}
			cur := vc.get(st, k)
			var ex []Term
			for _, p := range sl {
				ex = append(ex, Eq(r, phi[p].arr()))
			}
			for _, a := range preArrs {
				ex = append(ex, Eq(r, a))
			}
			return Forall([]Term{r}, Imp(And(Lt(r, preA), Not(Or(ex...))), Eq(Select(cur, r), Select(preC, r))), []Term{Select(cur, r)})
		})
	}
	// struct objects that existed before the loop, other than those stored to
	// through a pointer defined outside the loop, are unchanged
	if l.header != nil {
		written := map[string][]ssa.Value{} // component -> base pointers stored through
		unknown := map[string]bool{}
		for b := range l.blocks {
			for _, in := range b.Instrs {
				st, ok := in.(*ssa.Store)
				if !ok {
					continue
				}
				fa, ok := st.Addr.(*ssa.FieldAddr)
				if !ok {
					continue
				}
				kind, root, path, t := staticRoot(st.Addr)
				if kind != LObj {
					continue
				}
				base := fa.X
				for {
					if inner, ok := base.(*ssa.FieldAddr); ok {
						base = inner.X
						continue
					}
					break
				}
				for _, lf := range layout(t) {
					name := root + "|" + path + lf.Suffix
					if def, isIn := base.(ssa.Instruction); isIn && l.blocks[def.Block()] {
						unknown[name] = true
					} else {
						written[name] = append(written[name], base)
					}
				}
			}
		}
		for _, k := range names {
			k := k
			ws := written[k]
			if len(ws) == 0 || unknown[k] || !strings.HasPrefix(k, "H|") {
				continue
			}
			preC := vc.get(pre, k)
			preA := pre.alloc
			mk1("frameLo:"+k, func(st *State, phi map[*ssa.Phi]Val) Term {
				r := Term{"r!q", SInt}
				cur := vc.get(st, k)
				var ex []Term
				for _, w := range ws {
					if v, ok := f.vals[w]; ok && len(v.L) == 1 {
						ex = append(ex, Eq(r, v.one()))
					} else if p, ok := w.(*ssa.Parameter); ok {
						ex = append(ex, Eq(r, f.val(p).one()))
					}
				}
				return Forall([]Term{r}, Imp(And(Lt(r, preA), Not(Or(ex...))), Eq(Select(cur, r), Select(preC, r))), []Term{Select(cur, r)})
			})
		}
	}
	// maps that existed before the loop, other than those updated inside it, are unchanged
	if l.header != nil {
		updated := map[string][]ssa.Value{} // map type key -> map values written in the loop
		for b := range l.blocks {
			for _, in := range b.Instrs {
				if mu, ok := in.(*ssa.MapUpdate); ok {
					if def, isIn := mu.Map.(ssa.Instruction); !isIn || !l.blocks[def.Block()] {
						tk := typeKey(mu.Map.Type())
						updated[tk] = append(updated[tk], mu.Map)
					}
				}
			}
		}
		for _, k := range names {
			k := k
			tk := mapCompOf(k)
			if tk == "" || len(updated[tk]) == 0 {
				continue
			}
			ws := updated[tk]
			preC := vc.get(pre, k)
			preA := pre.alloc
			mk1("frameLm:"+k, func(st *State, phi map[*ssa.Phi]Val) Term {
				r := Term{"r!q", SInt}
				cur := vc.get(st, k)
				var ex []Term
				for _, w := range ws {
					if v, ok := f.vals[w]; ok {
						ex = append(ex, Eq(r, v.one()))
					}
				}
				return Forall([]Term{r}, Imp(And(Lt(r, preA), Not(Or(ex...))), Eq(Select(cur, r), Select(preC, r))), []Term{Select(cur, r)})
			})
		}
	}
	for _, key := range gorder {
		members := groups[key]
		if len(members) == 1 {
			mk1(strings.SplitN(key, ":", 2)[0]+":"+members[0][0].(string), members[0][1].(evf))
			continue
		}
		ms := members
		gid := mkc("", key+"|*", func(st *State, phi map[*ssa.Phi]Val) Term {
			var cs []Term
			for _, m := range ms {
				cs = append(cs, m[1].(evf)(st, phi))
			}
			return And(cs...)
		})
		for _, m := range ms {
			mkc(gid, strings.SplitN(key, ":", 2)[0]+":"+m[0].(string), m[1].(evf))
		}
	}
	for _, p := range l.phis {
		p := p
		switch t := p.Type().Underlying().(type) {
		case *types.Basic:
			if t.Info()&types.IsInteger != 0 {
				mk1("lower:"+p.Name(), func(st *State, phi map[*ssa.Phi]Val) Term {
					return Ge(phi[p].one(), IntT(-1))
				})
				mk1("nonneg:"+p.Name(), func(st *State, phi map[*ssa.Phi]Val) Term {
					return Ge(phi[p].one(), Zero)
				})
				// rangeindex < len: find the bound compared in the header
				if bound := f.rangeBound(l, p); bound != nil {
					mk1("upper:"+p.Name(), func(st *State, phi map[*ssa.Phi]Val) Term {
						return Lt(phi[p].one(), f.val(bound).one())
					})
				}
			}
		case *types.Pointer, *types.Map:
			mk1("nonnil:"+p.Name(), func(st *State, phi map[*ssa.Phi]Val) Term { return Ne(phi[p].one(), Zero) })
			mk1("fresh:"+p.Name(), func(st *State, phi map[*ssa.Phi]Val) Term {
				return vc.mineOrNil(st, phi[p].one())
			})
		case *types.Slice:
			// an append loop: the slice keeps its initial array or moves to one allocated in the loop
			if init, ok := l.prePhi[p]; ok && len(init.L) == 3 {
				initArr := init.arr()
				preA := l.pre.alloc
				mk1("arrInitOrNew:"+p.Name(), func(st *State, phi map[*ssa.Phi]Val) Term {
					return Or(Eq(phi[p].arr(), initArr), Ge(phi[p].arr(), preA))
				})
			}
			mk1("freshArr:"+p.Name(), func(st *State, phi map[*ssa.Phi]Val) Term {
				return vc.mineOrNil(st, phi[p].arr())
			})
			el := t.Elem()
			lay := layout(el)
			for i, lf := range lay {
				if !isMutableRefLeaf(lf) {
					continue
				}
				i, lf := i, lf
				_ = i
				name := compElem(el, lf.Suffix)
				vc.elemComps(el)
				if len(lay) == 1 {
					mk1("nilNotInElems:"+p.Name(), func(st *State, phi map[*ssa.Phi]Val) Term {
						t, _, ok := f.elemSet(st, phi[p], phi[p].len())
						if !ok {
							return True
						}
						return Not(Select(t, Zero))
					})
				}
				mk1("elemsNonNil:"+p.Name()+lf.Suffix, func(st *State, phi map[*ssa.Phi]Val) Term {
					j := Term{"j!q", SInt}
					e := Select(Select(vc.get(st, name), phi[p].arr()), j)
					return Forall([]Term{j}, Imp(And(Le(Zero, j), Lt(j, phi[p].len())), Ne(e, Zero)), []Term{e})
				})
				mk1("elemsFresh:"+p.Name()+lf.Suffix, func(st *State, phi map[*ssa.Phi]Val) Term {
					j := Term{"j!q", SInt}
					e := Select(Select(vc.get(st, name), phi[p].arr()), j)
					return Forall([]Term{j}, Imp(And(Le(Zero, j), Lt(j, phi[p].len())), vc.mineOrNil(st, e)), []Term{e})
				})
			}
		}
	}
	// local containers defined before the loop and mutated inside it
	f.containerCandidates(l, mk1)
	f.localObjectCandidates(l, mk1)
}

// rangeBound finds the SSA value n in "phi+1 < n" of a range-index loop.
func (f *Frame) rangeBound(l *Loop, p *ssa.Phi) ssa.Value {
	if p.Comment != "rangeindex" {
		return nil
	}
	for _, in := range l.header.Instrs {
		if b, ok := in.(*ssa.BinOp); ok && b.Op.String() == "<" {
			if add, ok := b.X.(*ssa.BinOp); ok && add.X == p {
				return b.Y
			}
		}
	}
	return nil
}

// containerCandidates proposes facts about maps and slices that live across
// the loop (defined outside, used inside).
func (f *Frame) containerCandidates(l *Loop, mk1 func(string, func(*State, map[*ssa.Phi]Val) Term)) {
	vc := f.vc
	seen := map[ssa.Value]bool{}
	for b := range l.blocks {
		for _, in := range b.Instrs {
			var ops []*ssa.Value
			ops = in.Operands(ops)
			for _, op := range ops {
				if op == nil || *op == nil {
					continue
				}
				v := *op
				if seen[v] {
					continue
				}
				seen[v] = true
				def, ok := v.(ssa.Instruction)
				if !ok || def.Block() == nil || l.blocks[def.Block()] {
					continue
				}
				mt, ok := v.Type().Underlying().(*types.Map)
				if !ok {
					continue
				}
				if _, have := f.vals[v]; !have {
					continue
				}
				m := f.vals[v].one()
				me := mt.Elem()
				_, _, valNames := f.mapComps(v.Type())
				domName := compMapDom(v.Type())
				for i, lf := range layout(me) {
					if !isMutableRefLeaf(lf) {
						continue
					}
					vn := valNames[i]
					mk1("mapValsNonNil:"+v.Name()+lf.Suffix, func(st *State, _ map[*ssa.Phi]Val) Term {
						k := Term{"k!q", keySort(mt.Key())}
						d := Select(Select(vc.get(st, domName), m), k)
						e := Select(Select(vc.get(st, vn), m), k)
						return Forall([]Term{k}, Imp(d, Ne(e, Zero)), []Term{e})
					})
					mk1("mapValsFresh:"+v.Name()+lf.Suffix, func(st *State, _ map[*ssa.Phi]Val) Term {
						k := Term{"k!q", keySort(mt.Key())}
						d := Select(Select(vc.get(st, domName), m), k)
						e := Select(Select(vc.get(st, vn), m), k)
						return Forall([]Term{k}, Imp(d, vc.mineOrNil(st, e)), []Term{e})
					})
					// reference fields of the (struct) values stay fresh-or-nil
					if pt, ok := lf.T.Underlying().(*types.Pointer); ok && isStruct(pt.Elem()) {
						for _, fl := range layout(pt.Elem()) {
							if !isMutableRefLeaf(fl) {
								continue
							}
							fname := "H|" + typeKey(pt.Elem()) + "|" + fl.Suffix
							if !l.mods[fname] {
								continue
							}
							mk1("mapValsFieldFresh:"+v.Name()+lf.Suffix+fl.Suffix, func(st *State, _ map[*ssa.Phi]Val) Term {
								k := Term{"k!q", keySort(mt.Key())}
								d := Select(Select(vc.get(st, domName), m), k)
								e := Select(Select(vc.get(st, vn), m), k)
								fe := Select(vc.get(st, fname), e)
								return Forall([]Term{k}, Imp(And(d, Ne(e, Zero)), vc.mineOrNil(st, fe)), []Term{e})
							})
						}
					}
				}
			}
		}
	}
}

// termCheck: variant decreases on every back edge (range loops: automatic).
func (f *Frame) termCheck(l *Loop, st *State, phi map[*ssa.Phi]Val, pos any) {
	// range-index loops and map-range loops terminate by construction
	for _, p := range l.phis {
		if p.Comment == "rangeindex" {
			return
		}
	}
	for _, in := range l.header.Instrs {
		if _, ok := in.(*ssa.Next); ok {
			return
		}
	}
	rf := f
	if rf.spec == nil {
		return
	}
	for _, d := range rf.spec.Decreases {
		if d.Loop != l.ordinal {
			continue
		}
		cur := f.evalLoopExpr(l, d, st, phi)
		old := f.evalLoopExpr(l, d, l.hdr, l.hdrPhi)
		f.oblige(st, "TERM", fmt.Sprintf("loop %d variant decreases: %s", l.ordinal, d.Text), l.header.Instrs[0].Pos(), And(Lt(cur, old), Ge(old, Zero)))
		return
	}
	f.oblige(st, "TERM", fmt.Sprintf("loop %d has no decreases clause", l.ordinal), l.header.Instrs[0].Pos(), False)
}

// localObjectCandidates: reference fields of objects this activation allocated
// before the loop (composite literals, new) stay fresh-or-nil.
func (f *Frame) localObjectCandidates(l *Loop, mk1 func(string, func(*State, map[*ssa.Phi]Val) Term)) {
	vc := f.vc
	for v, val := range f.vals {
		al, ok := v.(*ssa.Alloc)
		if !ok || len(val.L) != 1 {
			continue
		}
		el := deref(al.Type())
		if isArray(el) {
			continue
		}
		if l.header != nil && (l.blocks[al.Block()] || !al.Block().Dominates(l.header)) {
			continue
		}
		loc := objLoc(al.Type(), val.one())
		for _, lf := range layout(el) {
			if !isMutableRefLeaf(lf) {
				continue
			}
			name := loc.Root + "|" + lf.Suffix
			if !l.mods[name] {
				continue
			}
			name, ref := name, val.one()
			mk1("localFresh:"+al.Name()+lf.Suffix, func(st *State, _ map[*ssa.Phi]Val) Term {
				e := Select(vc.get(st, name), ref)
				return vc.mineOrNil(st, e)
			})
			mk1("localFreshA0:"+al.Name()+lf.Suffix, func(st *State, _ map[*ssa.Phi]Val) Term {
				e := Select(vc.get(st, name), ref)
				return Or(Eq(e, Zero), Ge(e, vc.A0))
			})
		}
	}
}
