package main

import (
	"flag"
	"fmt"
	"os"
	"sort"
	"strings"
	"time"
)

func classSet(s string) map[string]bool {
	if s == "" || s == "all" {
		return nil
	}
	m := map[string]bool{}
	for _, c := range strings.Split(s, ",") {
		m[strings.TrimSpace(c)] = true
	}
	return m
}

func main() {
	if len(os.Args) < 2 {
		fmt.Fprintln(os.Stderr, "usage: govc <func|lemma|check|list|selftest|replay> ...")
		os.Exit(2)
	}
	switch os.Args[1] {
	case "func":
		cmdFunc(os.Args[2:])
	case "lemma":
		cmdLemma(os.Args[2:])
	case "check":
		os.Exit(cmdCheck(os.Args[2:]))
	case "list":
		cmdList(os.Args[2:])
	case "selftest":
		os.Exit(cmdSelftest(os.Args[2:]))
	case "replay":
		os.Exit(cmdReplay(os.Args[2:]))
	default:
		fmt.Fprintln(os.Stderr, "unknown command", os.Args[1])
		os.Exit(2)
	}
}

func mustEngine(repo, contracts string, overlay map[string][]byte) *Engine {
	t0 := time.Now()
	eng, err := loadEngine(repo, overlay)
	if err != nil {
		fmt.Fprintln(os.Stderr, "load:", err)
		os.Exit(3)
	}
	specs, err := loadSpecs(repo, contracts, overlay)
	if err != nil {
		fmt.Fprintln(os.Stderr, "contracts:", err)
		os.Exit(3)
	}
	eng.specs = specs
	if err := specs.expandTemplates(eng); err != nil {
		fmt.Fprintln(os.Stderr, "contracts:", err)
		os.Exit(3)
	}
	eng.loadSecs = time.Since(t0).Seconds()
	return eng
}

func cmdList(args []string) {
	fs := flag.NewFlagSet("list", flag.ExitOnError)
	repo := fs.String("repo", "/repo", "")
	contracts := fs.String("contracts", "/verif/contracts", "")
	fs.Parse(args)
	eng := mustEngine(*repo, *contracts, nil)
	var ks []string
	for k := range eng.funcs {
		ks = append(ks, k)
	}
	sort.Strings(ks)
	for _, k := range ks {
		mark := " "
		if eng.specs.funcs[k] != nil {
			mark = "*"
		}
		fmt.Println(mark, k)
	}
}

func cmdFunc(args []string) {
	fs := flag.NewFlagSet("func", flag.ExitOnError)
	repo := fs.String("repo", "/repo", "")
	contracts := fs.String("contracts", "/verif/contracts", "")
	classes := fs.String("classes", "all", "")
	timeout := fs.Int("timeout", 10, "")
	verbose := fs.Bool("v", false, "")
	dump := fs.String("dump", "", "write the SMT script of the obligation whose name contains this string")
	nosolve := fs.Bool("nosolve", false, "only generate VCs and report engine limits")
	fs.Parse(args)
	eng := mustEngine(*repo, *contracts, nil)
	fns := eng.functionsByKey(fs.Args())
	if len(fns) == 0 {
		fmt.Println("no function matches")
		os.Exit(1)
	}
	dir, _ := os.MkdirTemp("", "govc")
	defer os.RemoveAll(dir)
	stats := newStats()
	var vcs []*VC
	for _, fn := range fns {
		vcs = append(vcs, eng.verifyFunc(fn, classSet(*classes)))
	}
	if *nosolve {
		for _, vc := range vcs {
			fmt.Printf("== %s: %d facts, %d obligations\n", vc.name, len(vc.facts), len(vc.obls))
			for _, u := range vc.unsup {
				fmt.Println("   UNSUPPORTED:", u)
			}
		}
		return
	}
	t0 := time.Now()
	c, k := solveAll(vcs, SolveOpts{TimeoutS: *timeout, Dir: dir}, stats)
	fmt.Printf("candidates %d kept %d, solve %.1fs\n", c, k, time.Since(t0).Seconds())
	for _, vc := range vcs {
		fmt.Printf("== %s: %d facts, %d obligations\n", vc.name, len(vc.facts), len(vc.obls))
		for _, u := range vc.unsup {
			fmt.Println("   UNSUPPORTED:", u)
		}
		for _, o := range vc.obls {
			if *dump != "" && strings.Contains(o.Name, *dump) {
				en := map[string]bool{}
				for k, v := range vc.enabled {
					en[k] = v
				}
				if o.Class == "CAND" {
					en[o.Extra["cand"]] = true
				}
				if os.Getenv("GOVC_DUMP_ALL") != "" {
					for id := range vc.eng.candEnable {
						if vc.eng.candParent[id] == "" {
							en[id] = true
						}
					}
				}
				os.WriteFile("/tmp/dump.smt2", []byte(vc.script(o, en, false)), 0o644)
				fmt.Println("        dumped", o.Name, "to /tmp/dump.smt2")
			}
			if o.Class == "CAND" {
				if *verbose {
					fmt.Printf("   cand %-8s %s\n", o.Status, o.Name)
					if o.Status == "error" {
						fmt.Println("        ", truncate(o.Output, 300))
					}
				}
				continue
			}
			ok := "ok  "
			if !o.discharged() {
				ok = "FAIL"
			}
			if !o.discharged() || *verbose {
				fmt.Printf("   %s %-8s %-10s %5dms %s  [%s]\n", ok, o.Status, o.Backend, o.Ms, o.Name, o.Pos)
				if !o.discharged() && *verbose {
					fmt.Println("         answers:", o.Extra["answers"])
				}
				if !o.discharged() && o.Output != "" && *verbose {
					fmt.Println("        ", truncate(o.Output, 300))
				}
			}
			if *dump != "" && strings.Contains(o.Name, *dump) {
				os.WriteFile("/tmp/dump.smt2", []byte(vc.script(o, vc.enabled, false)), 0o644)
				fmt.Println("        dumped to /tmp/dump.smt2")
			}
		}
	}
}

func cmdLemma(args []string) {
	fs := flag.NewFlagSet("lemma", flag.ExitOnError)
	repo := fs.String("repo", "/repo", "")
	contracts := fs.String("contracts", "/verif/contracts", "")
	timeout := fs.Int("timeout", 10, "")
	dump := fs.Bool("dump", false, "")
	fs.Parse(args)
	eng := mustEngine(*repo, *contracts, nil)
	dir, _ := os.MkdirTemp("", "govc")
	defer os.RemoveAll(dir)
	stats := newStats()
	var vcs []*VC
	for _, l := range eng.specs.lemmas {
		for _, a := range fs.Args() {
			if strings.Contains(l.Name, a) || a == "all" {
				vcs = append(vcs, eng.verifyLemma(l))
				break
			}
		}
	}
	solveAll(vcs, SolveOpts{TimeoutS: *timeout, Dir: dir}, stats)
	for _, vc := range vcs {
		for _, u := range vc.unsup {
			fmt.Println("   UNSUPPORTED:", u)
		}
		for _, o := range vc.obls {
			fmt.Printf("%-8s %-10s %5dms %s\n", o.Status, o.Backend, o.Ms, o.Name)
			if *dump {
				os.WriteFile("/tmp/dump.smt2", []byte(vc.script(o, vc.enabled, false)), 0o644)
			}
		}
	}
}
