package main

import "strings"

// selectPatterns finds subterms "(select X v)" of body (an SMT-LIB term) where
// v is one of the bound variables; they are used as quantifier triggers.
func selectPatterns(body string, vars []Term) [][]Term {
	isVar := map[string]bool{}
	for _, v := range vars {
		isVar[v.S] = true
	}
	found := map[string]map[string]bool{} // var -> set of select terms
	var order []string
	// scan for "(select "
	for i := 0; i+8 <= len(body); i++ {
		if !strings.HasPrefix(body[i:], "(select ") {
			continue
		}
		// find matching close paren
		depth := 0
		inBar := false
		end := -1
		for j := i; j < len(body); j++ {
			c := body[j]
			if c == '|' {
				inBar = !inBar
			}
			if inBar {
				continue
			}
			if c == '(' {
				depth++
			} else if c == ')' {
				depth--
				if depth == 0 {
					end = j
					break
				}
			}
		}
		if end < 0 {
			continue
		}
		term := body[i : end+1]
		// last argument
		k := strings.LastIndex(term[:len(term)-1], " ")
		if k < 0 {
			continue
		}
		last := term[k+1 : len(term)-1]
		if !isVar[last] || strings.Contains(term, "(ite ") {
			continue
		}
		// the array part must not mention other bound variables in index position only; allow anything
		if found[last] == nil {
			found[last] = map[string]bool{}
		}
		if !found[last][term] {
			found[last][term] = true
			order = append(order, last+"\x00"+term)
		}
	}
	// every bound variable must be covered, otherwise let the solver choose
	for _, v := range vars {
		if len(found[v.S]) == 0 {
			return nil
		}
	}
	if len(vars) == 1 {
		var pats [][]Term
		for _, o := range order {
			parts := strings.SplitN(o, "\x00", 2)
			// skip terms that contain a nested quantifier's variable... (cannot happen: inner vars are bound inside)
			pats = append(pats, []Term{{parts[1], SInt}})
			if len(pats) >= 4 {
				break
			}
		}
		return pats
	}
	// several variables: one multi-pattern with the first term of each
	var mp []Term
	for _, v := range vars {
		for _, o := range order {
			parts := strings.SplitN(o, "\x00", 2)
			if parts[0] == v.S {
				mp = append(mp, Term{parts[1], SInt})
				break
			}
		}
	}
	return [][]Term{mp}
}
