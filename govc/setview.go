package main

import (
	"fmt"
	"regexp"
	"strings"
	"go/types"
)

// Set views. ES_T(row, n) is the set { row[i] | 0 <= i < n } of the first n
// elements of a backing-array row (scalar element type T), an uninterpreted
// function constrained only by instances of its inductive definition:
//
//	ES(a,0) = {}                       ES(a,n+1) = ES(a,n) + {a[n]}
//	0 <= i < n ==> a[i] in ES(a,n)     ES(store(a,m,x), n) = ES(a,n) for m >= n
//
// FS_T_f(row, h, n) is the same for { h[row[i]] | i < n } (a field f of the
// structs a slice of pointers refers to).  The engine emits the instances it
// needs: an unfolding wherever a contract mentions elemsn(s,e), and the
// append lemma at every append.

func setSort(elem *Sort) *Sort { return SArr(elem, SBool) }

func (vc *VC) esFun(el types.Type) (string, *Sort, bool) {
	lay := layout(el)
	if len(lay) != 1 {
		return "", nil, false
	}
	es := lay[0].Sort
	name := "ES|" + typeKey(el)
	first := !vc.declared[sym(name)]
	fn := vc.declareFun(name, []*Sort{SArr(SInt, es), SInt}, setSort(es))
	if first {
		a := Term{"a!q", SArr(SInt, es)}
		n := Term{"n!q", SInt}
		i := Term{"i!q", SInt}
		app := func(r, k Term) Term { return mk(setSort(es), fn, r, k) }
		// ES(a,0) = {}
		vc.fact(Forall([]Term{a}, Eq(app(a, Zero), ConstArr(setSort(es), False)), []Term{app(a, Zero)}))
		// membership of elements
		vc.fact(Forall([]Term{a, n, i}, Imp(And(Le(Zero, i), Lt(i, n)), Select(app(a, n), Select(a, i))), []Term{app(a, n), Select(a, i)}))
		// closure of the entry heap: the members of a set taken from an array as it
		// was at entry are objects that existed at entry (or nil); same statement
		// as the element-wise closure axiom of the entry heap, for the set view
		if lay[0].Ref {
			r := Term{"r!q", SInt}
			x := Term{"x!q", SInt}
			row0 := Select(vc.get(&State{}, vc.elemComps(el)[0]), r)
			vc.fact(Forall([]Term{r, n, x}, Imp(Select(app(row0, n), x), And(Le(Zero, x), Lt(x, vc.A0))), []Term{Select(app(row0, n), x)}))
		}
	}
	return fn, es, true
}

// elemSet returns ES(row, n) and emits one unfolding of the definition at n.
func (f *Frame) elemSet(st *State, s Val, n Term) (Term, *Sort, bool) {
	vc := f.vc
	el := elemOf(s.T)
	fn, es, ok := vc.esFun(el)
	if !ok {
		return Term{}, nil, false
	}
	c := vc.at(st, vc.elemComps(el)[0], s.arr())
	row := Select(c, s.arr())
	app := func(k Term) Term { return mk(setSort(es), fn, row, k) }
	key := "es-unfold|" + row.S + "|" + n.S
	if !vc.declared[key] && !vc.hasBound(row, n) {
		vc.declared[key] = true
		prev := Sub(n, One)
		vc.fact(Eq(app(n), Ite(Le(n, Zero), ConstArr(setSort(es), False), Store(app(prev), Select(row, prev), True))))
		// a non-empty prefix has a member (witness: the first element)
		vc.fact(Imp(Gt(n, Zero), Select(app(n), Select(row, Zero))))
	}
	return app(n), es, true
}

// appendSetFacts: ES(content, len+k) in terms of the source rows.
func (f *Frame) appendSetFacts(st *State, el types.Type, srcRow Term, srcLen Term, content Term, newLen Term, single bool, x Term, tRow Term, n Term) {
	vc := f.vc
	fn, es, ok := vc.esFun(el)
	if !ok {
		return
	}
	app := func(r, k Term) Term { return mk(setSort(es), fn, r, k) }
	if single {
		vc.fact(Eq(app(content, newLen), Store(app(srcRow, srcLen), x, True)))
		return
	}
	q := Term{"x!q", es}
	vc.fact(Forall([]Term{q}, Eq(Select(app(content, newLen), q), Or(Select(app(srcRow, srcLen), q), Select(app(tRow, n), q))), []Term{Select(app(content, newLen), q)}))
	// inverse membership for the appended slice (definitional: a member of the
	// set of the first n elements sits at some index below n; idx is a Skolem
	// function). Emitted for this one row only, so that element-wise facts about
	// the appended slice carry over to the set view of the result.
	if !vc.hasBound(tRow, n) {
		idx := vc.declareFun("ES.idx|"+es.String(), []*Sort{SArr(SInt, es), SInt, es}, SInt)
		at := mk(SInt, idx, tRow, n, q)
		vc.fact(Forall([]Term{q}, Imp(Select(app(tRow, n), q), And(Le(Zero, at), Lt(at, n), Eq(Select(tRow, at), q))), []Term{Select(app(tRow, n), q)}))
	}
}

// fsFun: set of a field over the elements of a pointer slice.
func (vc *VC) fsFun(el types.Type, field string) (fn string, fs *Sort, comp string, ok bool) {
	pt, isPtr := el.Underlying().(*types.Pointer)
	if !isPtr {
		return
	}
	st, isStruct := pt.Elem().Underlying().(*types.Struct)
	if !isStruct {
		return
	}
	for i := 0; i < st.NumFields(); i++ {
		if st.Field(i).Name() == field {
			lay := layout(st.Field(i).Type())
			if len(lay) != 1 {
				return
			}
			fs = lay[0].Sort
			comp = compField(pt.Elem(), "."+field)
			vc.registerComp(comp, SArr(SInt, fs))
			name := fmt.Sprintf("FS|%s|%s", typeKey(pt.Elem()), field)
			first := !vc.declared[sym(name)]
			fn = vc.declareFun(name, []*Sort{SArr(SInt, SInt), SArr(SInt, fs), SInt}, setSort(fs))
			if first {
				a := Term{"a!q", SArr(SInt, SInt)}
				h := Term{"h!q", SArr(SInt, fs)}
				n := Term{"n!q", SInt}
				i := Term{"i!q", SInt}
				app := func(r, hh, k Term) Term { return mk(setSort(fs), fn, r, hh, k) }
				vc.fact(Forall([]Term{a, h}, Eq(app(a, h, Zero), ConstArr(setSort(fs), False)), []Term{app(a, h, Zero)}))
				vc.fact(Forall([]Term{a, h, n, i}, Imp(And(Le(Zero, i), Lt(i, n)), Select(app(a, h, n), Select(h, Select(a, i)))), []Term{app(a, h, n), Select(h, Select(a, i))}))
				// a member of the element set contributes its field to the field set
				// (both are images of the same first n elements)
				if efn, es, eok := vc.esFun(el); eok && es == SInt {
					p := Term{"p!q", SInt}
					mem := Select(mk(setSort(es), efn, a, n), p)
					vc.fact(Forall([]Term{a, h, n, p}, Imp(mem, Select(app(a, h, n), Select(h, p))), []Term{mem, app(a, h, n), Select(h, p)}))
				}
			}
			ok = true
			return
		}
	}
	return
}

// fsRegister emits extensionality instances between a field-set application
// and the ones mentioned before: the set depends only on the field values of
// the first n elements (relates the same slice under two heap versions, or a
// slice and its copy).
func (vc *VC) fsRegister(fn string, fs *Sort, row, h, n Term) {
	if vc.hasBound(row, h, n) {
		return
	}
	if vc.fsSeen == nil {
		vc.fsSeen = map[string][][3]Term{}
	}
	// group: the same source expression under different heap versions
	gk := fn + "|" + versionRe.ReplaceAllString(row.S, "")
	prevs := vc.fsSeen[gk]
	for _, p := range prevs {
		if p[0].S == row.S && p[1].S == h.S && p[2].S == n.S {
			return
		}
	}
	if len(prevs) >= 40 {
		return
	}
	i := Term{"i!q", SInt}
	emit := func(p [3]Term) {
		same := Forall([]Term{i}, Imp(And(Le(Zero, i), Lt(i, n)), Eq(Select(h, Select(row, i)), Select(p[1], Select(p[0], i)))), []Term{Select(row, i)}, []Term{Select(p[0], i)})
		vc.fact(Imp(And(Eq(n, p[2]), same), Eq(mk(setSort(fs), fn, row, h, n), mk(setSort(fs), fn, p[0], p[1], p[2]))))
	}
	// against the first mention (usually the entry state), the latest mention
	// at a loop head (the state the current path started from) and the latest mention
	if vc.fsAnchors == nil {
		vc.fsAnchors = map[string][]int{}
	}
	want := map[int]bool{0: true, len(prevs) - 1: true}
	if as := vc.fsAnchors[gk]; len(as) > 0 {
		want[as[len(as)-1]] = true
		if len(as) > 1 {
			want[as[len(as)-2]] = true
		}
	}
	for k, p := range prevs {
		if want[k] {
			emit(p)
		}
	}
	if vc.fsAnchor {
		vc.fsAnchors[gk] = append(vc.fsAnchors[gk], len(prevs))
	}
	vc.fsSeen[gk] = append(prevs, [3]Term{row, h, n})
}

var versionRe = regexp.MustCompile(`(!\d+|@0)\b`)

func (f *Frame) fieldSet(st *State, s Val, field string, n Term) (Term, *Sort, bool) {
	vc := f.vc
	el := elemOf(s.T)
	fn, fs, comp, ok := vc.fsFun(el, field)
	if !ok {
		return Term{}, nil, false
	}
	c := vc.at(st, vc.elemComps(el)[0], s.arr())
	row := Select(c, s.arr())
	// the elements of an array that existed at entry existed at entry
	h := vc.at(st, comp, s.arr())
	app := func(k Term) Term { return mk(setSort(fs), fn, row, h, k) }
	key := "fs-unfold|" + row.S + "|" + h.S + "|" + n.S
	if !vc.declared[key] && !vc.hasBound(row, h, n) {
		vc.declared[key] = true
		vc.fsRegister(fn, fs, row, h, n)
		prev := Sub(n, One)
		if n.S != "0" {
			vc.fsRegister(fn, fs, row, h, prev)
		}
		vc.fact(Eq(app(n), Ite(Le(n, Zero), ConstArr(setSort(fs), False), Store(app(prev), Select(h, Select(row, prev)), True))))
	}
	return app(n), fs, true
}

// appendFieldSetFacts: for pointer-element slices, the field sets named in the
// contract files grow by the field of the appended element.
// specUsesFieldSets: some clause of the contract that is in force mentions a field set.
func specUsesFieldSets(spec *FuncSpec) bool {
	if spec == nil {
		return false
	}
	for _, cls := range [][]*SpecClause{spec.Requires, spec.Ensures, spec.Invariants} {
		for _, c := range cls {
			if !skipLabel(c.Label) && strings.Contains(c.Text, "fieldset") {
				return true
			}
		}
	}
	return false
}

func (f *Frame) appendFieldSetFacts(st *State, el types.Type, srcRow, srcLen, content, newLen, x Term) {
	vc := f.vc
	if !vc.useFS {
		return // no contract in force talks about field sets
	}
	pt, isPtr := el.Underlying().(*types.Pointer)
	if !isPtr {
		return
	}
	for _, field := range vc.eng.specs.fieldsetsFor(typeKey(pt.Elem())) {
		fn, fs, comp, ok := vc.fsFun(el, field)
		if !ok {
			continue
		}
		h := vc.get(st, comp)
		app := func(r, k Term) Term { return mk(setSort(fs), fn, r, h, k) }
		vc.fsRegister(fn, fs, srcRow, h, srcLen)
		vc.fact(Eq(app(content, newLen), Store(app(srcRow, srcLen), Select(h, x), True)))
	}
}

// Image sets: IS_m(row, n) = { m(row[i]) | i < n } for a pure method m of the
// element type (its contract says "pure": the result is a function of the
// receiver).

func (vc *VC) pureMethod(el types.Type, method string) (ufn string, resSort *Sort, ok bool) {
	n := namedOf(el)
	if n == nil || n.Obj().Pkg() == nil {
		return
	}
	fn := vc.eng.lookupFunc(n.Obj().Pkg().Name(), n.Obj().Name()+"."+method)
	if fn == nil {
		return
	}
	spec := vc.eng.specs.funcSpec(fn)
	if spec == nil || !spec.Pure || fn.Signature.Results().Len() != 1 {
		return
	}
	lay := layout(fn.Signature.Results().At(0).Type())
	if len(lay) != 1 {
		return
	}
	resSort = lay[0].Sort
	ufn = vc.declareFun(fmt.Sprintf("uf|pure|%s|0|0", fnDisplayName(fn)), []*Sort{SInt}, resSort)
	return ufn, resSort, true
}

func (vc *VC) isFun(el types.Type, method string) (fn string, ufn string, rs *Sort, ok bool) {
	ufn, rs, ok = vc.pureMethod(el, method)
	if !ok {
		return
	}
	name := fmt.Sprintf("IS|%s|%s", typeKey(el), method)
	first := !vc.declared[sym(name)]
	fn = vc.declareFun(name, []*Sort{SArr(SInt, SInt), SInt}, setSort(rs))
	if first {
		a := Term{"a!q", SArr(SInt, SInt)}
		n := Term{"n!q", SInt}
		i := Term{"i!q", SInt}
		app := func(r, k Term) Term { return mk(setSort(rs), fn, r, k) }
		vc.fact(Forall([]Term{a}, Eq(app(a, Zero), ConstArr(setSort(rs), False)), []Term{app(a, Zero)}))
		vc.fact(Forall([]Term{a, n, i}, Imp(And(Le(Zero, i), Lt(i, n)), Select(app(a, n), mk(rs, ufn, Select(a, i)))), []Term{app(a, n), Select(a, i)}))
	}
	return fn, ufn, rs, true
}

func (f *Frame) imageSet(st *State, s Val, method string, n Term) (Term, *Sort, bool) {
	vc := f.vc
	el := elemOf(s.T)
	fn, ufn, rs, ok := vc.isFun(el, method)
	if !ok {
		return Term{}, nil, false
	}
	c := vc.at(st, vc.elemComps(el)[0], s.arr())
	row := Select(c, s.arr())
	app := func(k Term) Term { return mk(setSort(rs), fn, row, k) }
	key := "is-unfold|" + fn + "|" + row.S + "|" + n.S
	if !vc.declared[key] {
		vc.declared[key] = true
		prev := Sub(n, One)
		vc.fact(Eq(app(n), Ite(Le(n, Zero), ConstArr(setSort(rs), False), Store(app(prev), mk(rs, ufn, Select(row, prev)), True))))
		vc.fact(Imp(Gt(n, Zero), Select(app(n), mk(rs, ufn, Select(row, Zero)))))
	}
	return app(n), rs, true
}

func (f *Frame) appendImageSetFacts(st *State, el types.Type, srcRow, srcLen, content, newLen, x Term) {
	vc := f.vc
	pt, isPtr := el.Underlying().(*types.Pointer)
	if !isPtr {
		return
	}
	for _, m := range vc.eng.specs.imagesets[typeKey(pt.Elem())] {
		fn, ufn, rs, ok := vc.isFun(el, m)
		if !ok {
			continue
		}
		app := func(r, k Term) Term { return mk(setSort(rs), fn, r, k) }
		vc.fact(Eq(app(content, newLen), Store(app(srcRow, srcLen), mk(rs, ufn, x), True)))
	}
}
