package main

import (
	"fmt"
	"strings"
)

// Sort is an SMT-LIB sort: Int, Bool, String or (Array K V).
type Sort struct {
	Name string
	K, V *Sort
}

var (
	SInt  = &Sort{Name: "Int"}
	SBool = &Sort{Name: "Bool"}
	SStr  = &Sort{Name: "String"}
)

func SArr(k, v *Sort) *Sort { return &Sort{Name: "Array", K: k, V: v} }

func (s *Sort) String() string {
	if s.Name == "Array" {
		return "(Array " + s.K.String() + " " + s.V.String() + ")"
	}
	return s.Name
}

func (s *Sort) Eq(o *Sort) bool { return s.String() == o.String() }

// Term is an SMT-LIB term with its sort.
type Term struct {
	S    string
	Sort *Sort
}

func (t Term) String() string { return t.S }

func mk(sort *Sort, op string, args ...Term) Term {
	var b strings.Builder
	b.WriteByte('(')
	b.WriteString(op)
	for _, a := range args {
		b.WriteByte(' ')
		b.WriteString(a.S)
	}
	b.WriteByte(')')
	return Term{b.String(), sort}
}

func IntT(n int64) Term {
	if n < 0 {
		return Term{fmt.Sprintf("(- %d)", -n), SInt}
	}
	return Term{fmt.Sprintf("%d", n), SInt}
}

var (
	True  = Term{"true", SBool}
	False = Term{"false", SBool}
	Zero  = IntT(0)
	One   = IntT(1)
)

func BoolT(b bool) Term {
	if b {
		return True
	}
	return False
}

// StrT builds an SMT-LIB 2.6 string literal.
func StrT(s string) Term {
	var b strings.Builder
	b.WriteByte('"')
	for _, r := range s {
		switch {
		case r == '"':
			b.WriteString(`""`)
		case r == '\\':
			b.WriteString(`\u{5c}`)
		case r >= 0x20 && r < 0x7f:
			b.WriteRune(r)
		default:
			fmt.Fprintf(&b, `\u{%x}`, r)
		}
	}
	b.WriteByte('"')
	return Term{b.String(), SStr}
}

func Const(name string, s *Sort) Term { return Term{sym(name), s} }

// sym quotes a symbol when needed.
func sym(name string) string {
	simple := true
	for i, r := range name {
		ok := (r >= 'a' && r <= 'z') || (r >= 'A' && r <= 'Z') || r == '_' || r == '.' || r == '$' || r == '!' || r == '@' || r == '~' || r == '^' || r == '%' || r == '&' || r == '?' || r == '/' || (i > 0 && r >= '0' && r <= '9')
		if !ok {
			simple = false
			break
		}
	}
	if simple && name != "" {
		return name
	}
	name = strings.ReplaceAll(name, "|", "!")
	name = strings.ReplaceAll(name, "\\", "/")
	return "|" + name + "|"
}

func Eq(a, b Term) Term {
	if a.S == b.S {
		return True
	}
	return mk(SBool, "=", a, b)
}
func Ne(a, b Term) Term { return Not(Eq(a, b)) }
func Not(a Term) Term {
	switch a.S {
	case "true":
		return False
	case "false":
		return True
	}
	if strings.HasPrefix(a.S, "(not ") {
		return Term{a.S[5 : len(a.S)-1], SBool}
	}
	return mk(SBool, "not", a)
}

func And(ts ...Term) Term {
	var out []Term
	for _, t := range ts {
		if t.S == "true" {
			continue
		}
		if t.S == "false" {
			return False
		}
		out = append(out, t)
	}
	switch len(out) {
	case 0:
		return True
	case 1:
		return out[0]
	}
	return mk(SBool, "and", out...)
}

func Or(ts ...Term) Term {
	var out []Term
	for _, t := range ts {
		if t.S == "false" {
			continue
		}
		if t.S == "true" {
			return True
		}
		out = append(out, t)
	}
	switch len(out) {
	case 0:
		return False
	case 1:
		return out[0]
	}
	return mk(SBool, "or", out...)
}

func Imp(a, b Term) Term {
	if a.S == "true" {
		return b
	}
	if a.S == "false" || b.S == "true" {
		return True
	}
	return mk(SBool, "=>", a, b)
}

func Ite(c, a, b Term) Term {
	if c.S == "true" {
		return a
	}
	if c.S == "false" {
		return b
	}
	if a.S == b.S {
		return a
	}
	return mk(a.Sort, "ite", c, a, b)
}

func Select(arr, idx Term) Term {
	if arr.Sort.Name != "Array" {
		panic("select on non-array " + arr.S + " : " + arr.Sort.String())
	}
	return mk(arr.Sort.V, "select", arr, idx)
}
func Store(arr, idx, v Term) Term {
	if arr.Sort.Name != "Array" {
		panic("store on non-array " + arr.S)
	}
	return mk(arr.Sort, "store", arr, idx, v)
}

// ConstArr is ((as const (Array K V)) v).
func ConstArr(s *Sort, v Term) Term {
	return Term{"((as const " + s.String() + ") " + v.S + ")", s}
}

func Add(a, b Term) Term { return mk(SInt, "+", a, b) }
func Sub(a, b Term) Term { return mk(SInt, "-", a, b) }
func Mul(a, b Term) Term { return mk(SInt, "*", a, b) }
func Lt(a, b Term) Term  { return mk(SBool, "<", a, b) }
func Le(a, b Term) Term  { return mk(SBool, "<=", a, b) }
func Gt(a, b Term) Term  { return mk(SBool, ">", a, b) }
func Ge(a, b Term) Term  { return mk(SBool, ">=", a, b) }

func Forall(vars []Term, body Term, pats ...[]Term) Term { return quant("forall", vars, body, pats) }
func Exists(vars []Term, body Term, pats ...[]Term) Term { return quant("exists", vars, body, pats) }

func quant(q string, vars []Term, body Term, pats [][]Term) Term {
	if len(vars) == 0 {
		return body
	}
	var b strings.Builder
	b.WriteString("(" + q + " (")
	for _, v := range vars {
		fmt.Fprintf(&b, "(%s %s)", v.S, v.Sort)
	}
	b.WriteString(") ")
	if len(pats) > 0 {
		b.WriteString("(! " + body.S)
		for _, p := range pats {
			b.WriteString(" :pattern (")
			for i, t := range p {
				if i > 0 {
					b.WriteByte(' ')
				}
				b.WriteString(t.S)
			}
			b.WriteString(")")
		}
		b.WriteString(")")
	} else {
		b.WriteString(body.S)
	}
	b.WriteString(")")
	return Term{b.String(), SBool}
}

// zeroOf returns the zero value term of a scalar sort.
func zeroOf(s *Sort) Term {
	switch s.Name {
	case "Int":
		return Zero
	case "Bool":
		return False
	case "String":
		return StrT("")
	case "Array":
		return ConstArr(s, zeroOf(s.V))
	}
	panic("zeroOf " + s.String())
}

// smtLiteral decodes a string literal term built by StrT.
func smtLiteral(t Term) (string, bool) {
	x := t.S
	if t.Sort != SStr || len(x) < 2 || x[0] != '"' || x[len(x)-1] != '"' {
		return "", false
	}
	x = x[1 : len(x)-1]
	var b strings.Builder
	for i := 0; i < len(x); i++ {
		switch {
		case x[i] == '"' && i+1 < len(x) && x[i+1] == '"':
			b.WriteByte('"')
			i++
		case strings.HasPrefix(x[i:], `\u{`):
			j := strings.IndexByte(x[i:], '}')
			if j < 0 {
				return "", false
			}
			var r rune
			if _, err := fmt.Sscanf(x[i+3:i+j], "%x", &r); err != nil {
				return "", false
			}
			b.WriteRune(r)
			i += j
		default:
			b.WriteByte(x[i])
		}
	}
	return b.String(), true
}
