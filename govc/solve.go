package main

import (
	"bytes"
	"context"
	"crypto/sha256"
	"fmt"
	"os"
	"os/exec"
	"path/filepath"
	"runtime"
	"sort"
	"strings"
	"sync"
	"sync/atomic"
	"time"

	"golang.org/x/tools/go/ssa"
	"golang.org/x/tools/go/ssa/ssautil"
)

var allFuncsCache map[*ssa.Function]bool

func allFuncs(prog *ssa.Program) map[*ssa.Function]bool {
	if allFuncsCache == nil {
		allFuncsCache = ssautil.AllFunctions(prog)
	}
	return allFuncsCache
}

type Solver struct {
	Name string
	Args func(file string, timeoutS int) []string
}

// fastSolver: z3 5.1.0 with E-matching only (no model-based quantifier
// instantiation): proves or gives up within milliseconds.
var fastSolver = Solver{"z3-5.1.0-ematch", func(file string, t int) []string {
	return []string{"z3-new", fmt.Sprintf("-T:%d", t), "smt.mbqi=false", "smt.auto_config=false", file}
}}

var solvers = []Solver{
	{"z3-5.1.0", func(file string, t int) []string { return []string{"z3-new", fmt.Sprintf("-T:%d", t), file} }},
	{"cvc5-1.0.3", func(file string, t int) []string {
		return []string{"cvc5", "--strings-exp", fmt.Sprintf("--tlimit=%d", t*1000), file}
	}},
	{"z3-4.8.12", func(file string, t int) []string { return []string{"z3", fmt.Sprintf("-T:%d", t), file} }},
}

var fileSeq int64

type SolveOpts struct {
	Houdini    bool            // candidate check: fast solver, then cvc5 briefly
	Short      map[string]bool // obligations expected to fail (known findings): short second stage
	TimeoutS   int
	AllSolvers bool // thorough: ask every back end, flag disagreement
	Dir        string
	Workers    int
}

type SolverStats struct {
	mu      sync.Mutex
	Secs    map[string]float64
	Wins    map[string]int
	Queries int
}

func newStats() *SolverStats {
	return &SolverStats{Secs: map[string]float64{}, Wins: map[string]int{}}
}

func (vc *VC) script(o *Obl, enabled map[string]bool, models bool) string {
	var b bytes.Buffer
	b.WriteString("(set-logic ALL)\n")
	if models {
		b.WriteString("(set-option :produce-models true)\n")
	}
	for _, d := range vc.decls {
		b.WriteString(d)
		b.WriteByte('\n')
	}
	// Houdini enable flags
	var ids []string
	for id := range vc.eng.candEnable {
		ids = append(ids, id)
	}
	sort.Strings(ids)
	for _, id := range ids {
		en := vc.eng.candEnable[id]
		if !vc.declared[en.S] {
			continue
		}
		if enabled[id] {
			fmt.Fprintf(&b, "(assert %s)\n", en.S)
		} else {
			fmt.Fprintf(&b, "(assert (not %s))\n", en.S)
		}
	}
	for _, f := range vc.facts[:o.NFacts] {
		b.WriteString("(assert ")
		b.WriteString(f.S)
		b.WriteString(")\n")
	}
	b.WriteString("(assert (not (=> ")
	b.WriteString(o.Reach.S)
	b.WriteString(" ")
	b.WriteString(o.Goal.S)
	b.WriteString(")))\n(check-sat)\n")
	if models && len(o.ModelVals) > 0 {
		b.WriteString("(get-value (")
		for _, t := range o.ModelVals {
			b.WriteString(t.S)
			b.WriteByte(' ')
		}
		b.WriteString("))\n")
	}
	return b.String()
}

func runSolver(s Solver, file string, timeoutS int) (status string, out string, secs float64) {
	args := s.Args(file, timeoutS)
	ctx, cancel := context.WithTimeout(context.Background(), time.Duration(timeoutS+3)*time.Second)
	defer cancel()
	cmd := exec.CommandContext(ctx, args[0], args[1:]...)
	var buf bytes.Buffer
	cmd.Stdout = &buf
	cmd.Stderr = &buf
	t0 := time.Now()
	runErr := cmd.Run()
	secs = time.Since(t0).Seconds()
	out = buf.String()
	if out == "" && runErr != nil {
		out = "exec: " + runErr.Error()
	}
	first := strings.TrimSpace(out)
	if i := strings.IndexByte(first, '\n'); i >= 0 {
		first = strings.TrimSpace(first[:i])
	}
	switch first {
	case "unsat", "sat", "unknown":
		status = first
	case "timeout":
		status = "timeout"
	default:
		if ctx.Err() != nil || strings.Contains(out, "timeout") || strings.Contains(out, "interrupted") {
			status = "timeout"
		} else {
			status = "error"
		}
	}
	return
}

// solveOne decides one obligation with the portfolio.
func (vc *VC) solveOne(o *Obl, enabled map[string]bool, opts SolveOpts, stats *SolverStats) {
	if len(vc.unsup) > 0 {
		o.Status = "unsupported"
		o.Output = strings.Join(vc.unsup, "; ")
		return
	}
	wantModel := len(o.ModelVals) > 0
	text := vc.script(o, enabled, wantModel)
	sum := sha256.Sum256([]byte(text))
	o.Hash = fmt.Sprintf("%x", sum[:8])
	file := filepath.Join(opts.Dir, fmt.Sprintf("%s-%d.smt2", o.Hash, atomic.AddInt64(&fileSeq, 1)))
	if err := os.WriteFile(file, []byte(text), 0o644); err != nil {
		o.Status = "error"
		o.Output = err.Error()
		return
	}
	defer os.Remove(file)
	expectSat := o.Extra != nil && o.Extra["expect"] == "sat"
	var answers []string
	record := func(name, st, out string, secs float64) {
		stats.mu.Lock()
		stats.Secs[name] += secs
		stats.Queries++
		stats.mu.Unlock()
		answers = append(answers, name+"="+st)
	}
	// stage 1: the fast solver with a short limit decides almost everything
	quickT := 3
	if opts.TimeoutS < quickT {
		quickT = opts.TimeoutS
	}
	st, out, secs := runSolver(fastSolver, file, quickT)
	record(fastSolver.Name, st, out, secs)
	o.Status, o.Backend, o.Ms = st, fastSolver.Name, int64(secs*1000)
	if opts.Houdini {
		if st != "unsat" {
			st2, out2, secs2 := runSolver(solvers[1], file, 2)
			record(solvers[1].Name, st2, out2, secs2)
			if st2 == "unsat" {
				o.Status, o.Backend, o.Ms = st2, solvers[1].Name, int64(secs2*1000)
			}
		}
		return
	}
	if opts.Short[o.Name] && opts.TimeoutS > 3 {
		opts.TimeoutS = 3
	}
	if st == "sat" {
		o.Output = truncate(out, 4000)
	}
	if st == "error" {
		o.Output = solvers[0].Name + ": " + truncate(out, 400)
	}
	done := st == "unsat" || st == "sat"
	if expectSat && st != "error" {
		done = true
	}
	if done && !opts.AllSolvers {
		if st == "unsat" || st == "sat" {
			stats.mu.Lock()
			stats.Wins[fastSolver.Name]++
			stats.mu.Unlock()
		}
		o.Extra = mergeExtra(o.Extra, "answers", strings.Join(answers, " "))
		return
	}
	// stage 2: race all back ends with the full limit
	type ans struct {
		name, st, out string
		secs          float64
	}
	ch := make(chan ans, len(solvers))
	for _, s := range solvers {
		s := s
		go func() {
			st, out, secs := runSolver(s, file, opts.TimeoutS)
			ch <- ans{s.Name, st, out, secs}
		}()
	}
	decided := done
	for range solvers {
		a := <-ch
		record(a.name, a.st, a.out, a.secs)
		if a.st == "unsat" || a.st == "sat" {
			if !decided {
				decided = true
				o.Status, o.Backend, o.Ms = a.st, a.name, int64(a.secs*1000)
				if a.st == "sat" {
					o.Output = truncate(a.out, 4000)
				}
				stats.mu.Lock()
				stats.Wins[a.name]++
				stats.mu.Unlock()
			} else if o.Status != a.st && (o.Status == "sat" || o.Status == "unsat") {
				o.Status = "error"
				o.Output = "solver disagreement"
			}
		} else if !decided && (o.Status == "error" || o.Status == "") && a.st != "error" {
			o.Status, o.Backend, o.Ms = a.st, a.name, int64(a.secs*1000)
		}
	}
	if o.Status == "error" && o.Output == "solver disagreement" {
		o.Output = "solver disagreement: " + strings.Join(answers, " ")
	}
	o.Extra = mergeExtra(o.Extra, "answers", strings.Join(answers, " "))
}

func mergeExtra(m map[string]string, k, v string) map[string]string {
	if m == nil {
		m = map[string]string{}
	}
	m[k] = v
	return m
}

func truncate(s string, n int) string {
	if len(s) > n {
		return s[:n] + "…"
	}
	return s
}

func (o *Obl) discharged() bool {
	if o.Extra != nil && o.Extra["expect"] == "sat" {
		return o.Status == "sat" || o.Status == "unknown" || o.Status == "timeout"
	}
	return o.Status == "unsat"
}

// solveAll runs Houdini on CAND obligations, then decides the rest.
func solveAll(vcs []*VC, opts SolveOpts, stats *SolverStats) (cands, kept int) {
	if opts.Workers == 0 {
		opts.Workers = runtime.NumCPU()
	}
	type job struct {
		vc *VC
		o  *Obl
	}
	runWith := func(jobs []job, enabled map[string]bool, opts SolveOpts) {
		var wg sync.WaitGroup
		ch := make(chan job)
		for i := 0; i < opts.Workers; i++ {
			wg.Add(1)
			go func() {
				defer wg.Done()
				for j := range ch {
					j.o.Status, j.o.Output, j.o.Backend = "", "", ""
					j.vc.solveOne(j.o, enabled, opts, stats)
				}
			}()
		}
		for _, j := range jobs {
			ch <- j
		}
		close(ch)
		wg.Wait()
	}
	run := func(jobs []job, enabled map[string]bool) { runWith(jobs, enabled, opts) }
	enabled := map[string]bool{}
	for _, vc := range vcs {
		for _, o := range vc.obls {
			if o.Class == "CAND" {
				enabled[o.Extra["cand"]] = true
			}
		}
		// candidates whose checks were all trivially true
		for id, en := range vc.eng.candEnable {
			if vc.declared[en.S] {
				enabled[id] = true
			}
		}
	}
	cands = len(enabled)
	hopts := opts
	hopts.Houdini = true
	hopts.AllSolvers = false
	for round := 0; round < 20; round++ {
		var jobs []job
		for _, vc := range vcs {
			for _, o := range vc.obls {
				if o.Class == "CAND" && enabled[o.Extra["cand"]] {
					jobs = append(jobs, job{vc, o})
				}
			}
		}
		if len(jobs) == 0 {
			break
		}
		runWith(jobs, enabled, hopts)
		removed := 0
		for _, j := range jobs {
			if j.o.Status != "unsat" {
				if enabled[j.o.Extra["cand"]] {
					enabled[j.o.Extra["cand"]] = false
					removed++
				}
			}
		}
		if removed == 0 {
			break
		}
	}
	for _, v := range enabled {
		if v {
			kept++
		}
	}
	var jobs []job
	for _, vc := range vcs {
		for _, o := range vc.obls {
			if o.Class != "CAND" {
				jobs = append(jobs, job{vc, o})
			}
		}
	}
	run(jobs, enabled)
	for _, vc := range vcs {
		vc.enabled = enabled
	}
	return
}
