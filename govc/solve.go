package main

import (
	"bytes"
	"context"
	"crypto/sha256"
	"fmt"
	"os"
	"os/exec"
	"path/filepath"
	"runtime"
	"sort"
	"strings"
	"sync"
	"sync/atomic"
	"time"

	"golang.org/x/tools/go/ssa"
	"golang.org/x/tools/go/ssa/ssautil"
)

var allFuncsCache map[*ssa.Function]bool

func allFuncs(prog *ssa.Program) map[*ssa.Function]bool {
	if allFuncsCache == nil {
		allFuncsCache = ssautil.AllFunctions(prog)
	}
	return allFuncsCache
}

type Solver struct {
	Name string
	Args func(file string, timeoutS int) []string
}

// fastSolver: z3 5.1.0 with E-matching only (no model-based quantifier
// instantiation): proves or gives up within milliseconds.
var fastSolver = Solver{"z3-5.1.0-ematch", func(file string, t int) []string {
	return []string{"z3-new", fmt.Sprintf("-T:%d", t), "smt.mbqi=false", "smt.auto_config=false", file}
}}

var solvers = []Solver{
	{"z3-5.1.0", func(file string, t int) []string { return []string{"z3-new", fmt.Sprintf("-T:%d", t), file} }},
	{"cvc5-1.0.3", func(file string, t int) []string {
		return []string{"cvc5", "--strings-exp", fmt.Sprintf("--tlimit=%d", t*1000), file}
	}},
	{"z3-4.8.12", func(file string, t int) []string { return []string{"z3", fmt.Sprintf("-T:%d", t), file} }},
}

var fileSeq int64

type SolveOpts struct {
	Houdini    bool            // candidate check: fast solver, then cvc5 briefly
	Short      map[string]bool // obligations expected to fail (known findings): short second stage
	TimeoutS   int
	Retry      bool // one more race with 3x the limit for undecided obligations that timed out
	AllSolvers bool // thorough: ask every back end, flag disagreement
	Dir        string
	Workers    int
}

type SolverStats struct {
	mu      sync.Mutex
	Secs    map[string]float64
	Wins    map[string]int
	Queries int
}

func newStats() *SolverStats {
	return &SolverStats{Secs: map[string]float64{}, Wins: map[string]int{}}
}

func (vc *VC) script(o *Obl, enabled map[string]bool, models bool) string {
	var b bytes.Buffer
	b.WriteString("(set-logic ALL)\n")
	if models {
		b.WriteString("(set-option :produce-models true)\n")
	}
	for _, d := range vc.decls {
		b.WriteString(d)
		b.WriteByte('\n')
	}
	for _, a := range vc.prelude() {
		b.WriteString(a)
		b.WriteByte('\n')
	}
	// Houdini enable flags
	var ids []string
	for id := range vc.eng.candEnable {
		ids = append(ids, id)
	}
	sort.Strings(ids)
	for _, id := range ids {
		en := vc.eng.candEnable[id]
		if !vc.declared[en.S] {
			continue
		}
		if enabled[id] {
			fmt.Fprintf(&b, "(assert %s)\n", en.S)
		} else {
			fmt.Fprintf(&b, "(assert (not %s))\n", en.S)
		}
	}
	for _, f := range vc.facts[:o.NFacts] {
		b.WriteString("(assert ")
		b.WriteString(f.S)
		b.WriteString(")\n")
	}
	b.WriteString("(assert (not (=> ")
	b.WriteString(o.Reach.S)
	b.WriteString(" ")
	b.WriteString(o.Goal.S)
	b.WriteString(")))\n(check-sat)\n")
	if models && len(o.ModelVals) > 0 {
		b.WriteString("(get-value (")
		for _, t := range o.ModelVals {
			b.WriteString(t.S)
			b.WriteByte(' ')
		}
		b.WriteString("))\n")
	}
	return b.String()
}

func runSolver(s Solver, file string, timeoutS int) (status string, out string, secs float64) {
	args := s.Args(file, timeoutS)
	ctx, cancel := context.WithTimeout(context.Background(), time.Duration(timeoutS+3)*time.Second)
	defer cancel()
	cmd := exec.CommandContext(ctx, args[0], args[1:]...)
	var buf bytes.Buffer
	cmd.Stdout = &buf
	cmd.Stderr = &buf
	t0 := time.Now()
	runErr := cmd.Run()
	secs = time.Since(t0).Seconds()
	out = buf.String()
	if out == "" && runErr != nil {
		out = "exec: " + runErr.Error()
	}
	first := ""
	for _, line := range strings.Split(out, "\n") {
		line = strings.TrimSpace(line)
		if line == "" || strings.HasPrefix(line, "WARNING") {
			continue
		}
		first = line
		break
	}
	switch first {
	case "unsat", "sat", "unknown":
		status = first
	case "timeout":
		status = "timeout"
	default:
		if ctx.Err() != nil || strings.Contains(out, "timeout") || strings.Contains(out, "interrupted") {
			status = "timeout"
		} else {
			status = "error"
		}
	}
	return
}

// solveOne decides one obligation with the portfolio.
func (vc *VC) solveOne(o *Obl, enabled map[string]bool, opts SolveOpts, stats *SolverStats) {
	if len(vc.unsup) > 0 {
		o.Status = "unsupported"
		o.Output = strings.Join(vc.unsup, "; ")
		return
	}
	wantModel := len(o.ModelVals) > 0
	text := vc.script(o, enabled, wantModel)
	sum := sha256.Sum256([]byte(text))
	o.Hash = fmt.Sprintf("%x", sum[:8])
	file := filepath.Join(opts.Dir, fmt.Sprintf("%s-%d.smt2", o.Hash, atomic.AddInt64(&fileSeq, 1)))
	if err := os.WriteFile(file, []byte(text), 0o644); err != nil {
		o.Status = "error"
		o.Output = err.Error()
		return
	}
	defer os.Remove(file)
	expectSat := o.Extra != nil && o.Extra["expect"] == "sat"
	var answers []string
	record := func(name, st, out string, secs float64) {
		stats.mu.Lock()
		stats.Secs[name] += secs
		stats.Queries++
		stats.mu.Unlock()
		answers = append(answers, name+"="+st)
	}
	// stage 1: the fast solver with a short limit decides almost everything
	quickT := 3
	if opts.TimeoutS < quickT {
		quickT = opts.TimeoutS
	}
	var st, out string
	var secs float64
	if opts.Houdini {
		// the incremental E-matching pass already failed on this one
		st = "unknown"
	} else {
		st, out, secs = runSolver(fastSolver, file, quickT)
		record(fastSolver.Name, st, out, secs)
	}
	o.Status, o.Backend, o.Ms = st, fastSolver.Name, int64(secs*1000)
	if opts.Houdini {
		if st != "unsat" {
			// second chance before a candidate is dropped: z3 with model-based
			// instantiation and cvc5, briefly, in parallel
			type ans struct {
				name, st, out string
				secs          float64
			}
			ch := make(chan ans, 2)
			for _, s := range []Solver{solvers[0], solvers[1]} {
				s := s
				go func() {
					st2, out2, secs2 := runSolver(s, file, 1)
					ch <- ans{s.Name, st2, out2, secs2}
				}()
			}
			for i := 0; i < 2; i++ {
				a := <-ch
				record(a.name, a.st, a.out, a.secs)
				if a.st == "unsat" {
					o.Status, o.Backend, o.Ms = a.st, a.name, int64(a.secs*1000)
				}
			}
		}
		return
	}
	if opts.Short[o.Name] && opts.TimeoutS > 3 {
		opts.TimeoutS = 3
	}
	if st == "sat" {
		o.Output = truncate(out, 4000)
	}
	if st == "error" {
		o.Output = solvers[0].Name + ": " + truncate(out, 400)
	}
	done := st == "unsat" || st == "sat"
	if expectSat && st != "error" {
		done = true
	}
	if done && !opts.AllSolvers {
		if st == "unsat" || st == "sat" {
			stats.mu.Lock()
			stats.Wins[fastSolver.Name]++
			stats.mu.Unlock()
		}
		o.Extra = mergeExtra(o.Extra, "answers", strings.Join(answers, " "))
		return
	}
	// stage 2: race all back ends with the full limit
	type ans struct {
		name, st, out string
		secs          float64
	}
	ch := make(chan ans, len(solvers))
	for _, s := range solvers {
		s := s
		go func() {
			st, out, secs := runSolver(s, file, opts.TimeoutS)
			ch <- ans{s.Name, st, out, secs}
		}()
	}
	decided := done
	sawTimeout := false
	for range solvers {
		a := <-ch
		if a.st == "timeout" {
			sawTimeout = true
		}
		record(a.name, a.st, a.out, a.secs)
		if a.st == "unsat" || a.st == "sat" {
			if !decided {
				decided = true
				o.Status, o.Backend, o.Ms = a.st, a.name, int64(a.secs*1000)
				if a.st == "sat" {
					o.Output = truncate(a.out, 4000)
				}
				stats.mu.Lock()
				stats.Wins[a.name]++
				stats.mu.Unlock()
			} else if o.Status != a.st && (o.Status == "sat" || o.Status == "unsat") {
				o.Status = "error"
				o.Output = "solver disagreement"
			}
		} else if !decided && (o.Status == "error" || o.Status == "") && a.st != "error" {
			o.Status, o.Backend, o.Ms = a.st, a.name, int64(a.secs*1000)
		}
	}
	// stage 3 (quick tier only): an obligation nobody decided and somebody ran
	// out of time on gets one more race with three times the limit, so that a
	// loaded machine does not turn a slow proof into an alarm
	if !decided && sawTimeout && !expectSat && opts.Retry {
		ch3 := make(chan ans, len(solvers))
		for _, s := range solvers {
			s := s
			go func() {
				st, out, secs := runSolver(s, file, 3*opts.TimeoutS)
				ch3 <- ans{s.Name, st, out, secs}
			}()
		}
		for range solvers {
			a := <-ch3
			record(a.name+"(retry)", a.st, a.out, a.secs)
			if (a.st == "unsat" || a.st == "sat") && !decided {
				decided = true
				o.Status, o.Backend, o.Ms = a.st, a.name, int64(a.secs*1000)
				if a.st == "sat" {
					o.Output = truncate(a.out, 4000)
				}
				stats.mu.Lock()
				stats.Wins[a.name]++
				stats.mu.Unlock()
			}
		}
	}
	if o.Status == "error" && o.Output == "solver disagreement" {
		o.Output = "solver disagreement: " + strings.Join(answers, " ")
	}
	o.Extra = mergeExtra(o.Extra, "answers", strings.Join(answers, " "))
}

func mergeExtra(m map[string]string, k, v string) map[string]string {
	if m == nil {
		m = map[string]string{}
	}
	m[k] = v
	return m
}

func truncate(s string, n int) string {
	if len(s) > n {
		return s[:n] + "…"
	}
	return s
}

func (o *Obl) discharged() bool {
	if o.Extra != nil && o.Extra["expect"] == "sat" {
		return o.Status == "sat" || o.Status == "unknown" || o.Status == "timeout"
	}
	return o.Status == "unsat"
}

// incremental decides many obligations of one VC in a single solver process
// (E-matching only): facts are asserted in program order, each obligation is
// a push / assert-negation / check-sat / pop.
func (vc *VC) incremental(obls []*Obl, enabled map[string]bool, perCheckMs int, opts SolveOpts, stats *SolverStats) map[*Obl]string {
	res, _ := vc.incrementalCores(obls, enabled, perCheckMs, opts, stats, false)
	return res
}

// incrementalCores is incremental with the Houdini enable flags passed as
// assumptions, so that every proof reports which candidates it used.
// mentionsFieldViews: the term talks about field / image set views.
func mentionsFieldViews(s string) bool {
	return strings.Contains(s, "|FS!") || strings.Contains(s, "|IS!")
}

// incrementalCores splits the obligations into those whose goal mentions a
// field/image set view and those that do not; the latter are checked without
// the facts about those views (dropping facts is sound; an obligation that
// fails this way is retried with every fact by the later stages).
func (vc *VC) incrementalCores(obls []*Obl, enabled map[string]bool, perCheckMs int, opts SolveOpts, stats *SolverStats, cores bool) (map[*Obl]string, map[*Obl][]string) {
	var with, without []*Obl
	for _, o := range obls {
		if mentionsFieldViews(o.Goal.S) {
			with = append(with, o)
		} else {
			without = append(without, o)
		}
	}
	hasViewFacts := false
	for _, f := range vc.facts {
		if mentionsFieldViews(f.S) {
			hasViewFacts = true
			break
		}
	}
	if !hasViewFacts || len(without) == 0 {
		return vc.incrementalCores1(obls, enabled, perCheckMs, opts, stats, cores, false)
	}
	r1, c1 := vc.incrementalCores1(without, enabled, perCheckMs, opts, stats, cores, true)
	if len(with) > 0 {
		r2, c2 := vc.incrementalCores1(with, enabled, perCheckMs, opts, stats, cores, false)
		for k, v := range r2 {
			r1[k] = v
		}
		for k, v := range c2 {
			c1[k] = v
		}
	}
	return r1, c1
}

func (vc *VC) incrementalCores1(obls []*Obl, enabled map[string]bool, perCheckMs int, opts SolveOpts, stats *SolverStats, cores bool, dropViews bool) (map[*Obl]string, map[*Obl][]string) {
	res := map[*Obl]string{}
	coreOf := map[*Obl][]string{}
	retn := func() (map[*Obl]string, map[*Obl][]string) { return res, coreOf }
	_ = retn
	if len(obls) == 0 {
		return res, coreOf
	}
	if len(vc.unsup) > 0 {
		for _, o := range obls {
			res[o] = "unsupported"
		}
		return res, coreOf
	}
	sorted := append([]*Obl(nil), obls...)
	sort.SliceStable(sorted, func(i, j int) bool { return sorted[i].NFacts < sorted[j].NFacts })
	var b bytes.Buffer
	b.WriteString("(set-logic ALL)\n")
	fmt.Fprintf(&b, "(set-option :timeout %d)\n", perCheckMs)
	if cores {
		b.WriteString("(set-option :produce-unsat-cores true)\n")
	}
	for _, d := range vc.decls {
		b.WriteString(d)
		b.WriteByte('\n')
	}
	for _, a := range vc.prelude() {
		b.WriteString(a)
		b.WriteByte('\n')
	}
	var assume []string
	flagID := map[string]string{}
	var ids []string
	for id := range vc.eng.candEnable {
		ids = append(ids, id)
	}
	sort.Strings(ids)
	for _, id := range ids {
		en := vc.eng.candEnable[id]
		if !vc.declared[en.S] {
			continue
		}
		if enabled[id] {
			if cores {
				assume = append(assume, en.S)
				flagID[en.S] = id
			} else {
				fmt.Fprintf(&b, "(assert %s)\n", en.S)
			}
		} else {
			fmt.Fprintf(&b, "(assert (not %s))\n", en.S)
		}
	}
	n := 0
	for _, o := range sorted {
		for ; n < o.NFacts; n++ {
			if dropViews && mentionsFieldViews(vc.facts[n].S) {
				continue
			}
			b.WriteString("(assert ")
			b.WriteString(vc.facts[n].S)
			b.WriteString(")\n")
		}
		b.WriteString("(push 1)\n(assert (not (=> ")
		b.WriteString(o.Reach.S)
		b.WriteString(" ")
		b.WriteString(o.Goal.S)
		if cores {
			b.WriteString(")))\n(check-sat-assuming (")
			b.WriteString(strings.Join(assume, " "))
			b.WriteString("))\n(get-unsat-core)\n(pop 1)\n")
		} else {
			b.WriteString(")))\n(check-sat)\n(pop 1)\n")
		}
	}
	file := filepath.Join(opts.Dir, fmt.Sprintf("inc-%d.smt2", atomic.AddInt64(&fileSeq, 1)))
	if err := os.WriteFile(file, b.Bytes(), 0o644); err != nil {
		return res, coreOf
	}
	defer os.Remove(file)
	total := len(sorted)*perCheckMs/1000 + 20
	ctx, cancel := context.WithTimeout(context.Background(), time.Duration(total)*time.Second)
	defer cancel()
	cmd := exec.CommandContext(ctx, "z3-new", "smt.mbqi=false", "smt.auto_config=false", file)
	var buf bytes.Buffer
	cmd.Stdout = &buf
	cmd.Stderr = &buf
	t0 := time.Now()
	_ = cmd.Run()
	secs := time.Since(t0).Seconds()
	stats.mu.Lock()
	stats.Secs["z3-5.1.0-ematch(incremental)"] += secs
	stats.Queries += len(sorted)
	stats.mu.Unlock()
	var answers []string
	var coreLines []string
	for _, line := range strings.Split(buf.String(), "\n") {
		line = strings.TrimSpace(line)
		switch line {
		case "sat", "unsat", "unknown", "timeout":
			answers = append(answers, line)
			coreLines = append(coreLines, "")
		default:
			if cores && len(answers) > 0 && coreLines[len(coreLines)-1] == "" {
				// the line after an answer: the core, or the error of get-unsat-core
				if strings.HasPrefix(line, "(error") {
					coreLines[len(coreLines)-1] = "-"
					continue
				}
				if strings.HasPrefix(line, "(") {
					coreLines[len(coreLines)-1] = line
					continue
				}
			}
			if strings.HasPrefix(line, "(error") {
				// an error in a fact poisons everything after it: be conservative
				answers = append(answers, "error:"+line)
				coreLines = append(coreLines, "-")
			}
		}
	}
	okCount := 0
	for _, a := range answers {
		if !strings.HasPrefix(a, "error:") {
			okCount++
		}
	}
	if okCount != len(sorted) || okCount != len(answers) {
		// fall back to one-by-one solving
		return res, coreOf
	}
	for i, o := range sorted {
		res[o] = answers[i]
		if cores && answers[i] == "unsat" {
			for _, tok := range splitCore(coreLines[i]) {
				if id, ok := flagID[tok]; ok {
					coreOf[o] = append(coreOf[o], id)
				}
			}
		}
	}
	return res, coreOf
}

// splitCore splits "(a |b c| d)" into symbols.
func splitCore(s string) []string {
	s = strings.TrimSpace(s)
	s = strings.TrimPrefix(s, "(")
	s = strings.TrimSuffix(s, ")")
	var out []string
	for len(s) > 0 {
		s = strings.TrimLeft(s, " ")
		if s == "" {
			break
		}
		if s[0] == '|' {
			j := strings.IndexByte(s[1:], '|')
			if j < 0 {
				break
			}
			out = append(out, s[:j+2])
			s = s[j+2:]
		} else {
			j := strings.IndexByte(s, ' ')
			if j < 0 {
				out = append(out, s)
				break
			}
			out = append(out, s[:j])
			s = s[j:]
		}
	}
	return out
}

// solveAll runs Houdini on CAND obligations, then decides the rest.
func solveAll(vcs []*VC, opts SolveOpts, stats *SolverStats) (cands, kept int) {
	if opts.Workers == 0 {
		opts.Workers = runtime.NumCPU()
	}
	if len(vcs) == 0 {
		return
	}
	eng := vcs[0].eng
	type job struct {
		vc *VC
		o  *Obl
	}
	runWith := func(jobs []job, enabled map[string]bool, opts SolveOpts) {
		var wg sync.WaitGroup
		ch := make(chan job)
		for i := 0; i < opts.Workers; i++ {
			wg.Add(1)
			go func() {
				defer wg.Done()
				for j := range ch {
					j.o.Status, j.o.Output, j.o.Backend = "", "", ""
					j.vc.solveOne(j.o, enabled, opts, stats)
				}
			}()
		}
		for _, j := range jobs {
			ch <- j
		}
		close(ch)
		wg.Wait()
	}
	// parallel over VCs: incremental stage
	allCores := map[*Obl][]string{}
	incAll := func(sel func(o *Obl) bool, enabled map[string]bool, ms int, cores bool) map[*Obl]string {
		out := map[*Obl]string{}
		var mu sync.Mutex
		var wg sync.WaitGroup
		sem := make(chan struct{}, opts.Workers)
		for _, vc := range vcs {
			var obls []*Obl
			for _, o := range vc.obls {
				if sel(o) {
					obls = append(obls, o)
				}
			}
			if len(obls) == 0 {
				continue
			}
			// split big batches so that all cores are used
			chunk := (len(obls) + 11) / 12
			if chunk < 12 {
				chunk = 12
			}
			for i := 0; i < len(obls); i += chunk {
				j := i + chunk
				if j > len(obls) {
					j = len(obls)
				}
				part := obls[i:j]
				vc := vc
				wg.Add(1)
				sem <- struct{}{}
				go func() {
					defer wg.Done()
					defer func() { <-sem }()
					r, cs := vc.incrementalCores(part, enabled, ms, opts, stats, cores)
					mu.Lock()
					for k, v := range r {
						out[k] = v
					}
					for k, v := range cs {
						allCores[k] = v
					}
					mu.Unlock()
				}()
			}
		}
		wg.Wait()
		return out
	}
	// candidate states: active (enabled), inactive (refinement of a live group), dead
	enabled := map[string]bool{}
	known := map[string]bool{}
	for _, vc := range vcs {
		for id, en := range eng.candEnable {
			if vc.declared[en.S] {
				known[id] = true
				enabled[id] = eng.candParent[id] == ""
			}
		}
	}
	cands = len(known)
	hopts := opts
	hopts.Houdini = true
	hopts.AllSolvers = false
	dead := map[string]bool{}
	tlog := func(format string, a ...any) {
		if os.Getenv("GOVC_TIMING") != "" {
			fmt.Fprintf(os.Stderr, "[timing] "+format+"\n", a...)
		}
	}
	tStart := time.Now()
	proved := map[*Obl]bool{} // proved in an earlier round with a core that is still intact
	secondChance := map[*Obl]bool{} // already retried one by one with the stronger back ends
	for round := 0; round < 60; round++ {
		tR := time.Now()
		need := func(o *Obl) bool {
			if o.Class != "CAND" || !enabled[o.Extra["cand"]] {
				return false
			}
			if !proved[o] {
				return true
			}
			for _, id := range allCores[o] {
				if !enabled[id] {
					return true
				}
			}
			return false
		}
		var needed []*Obl
		for _, vc := range vcs {
			for _, o := range vc.obls {
				if need(o) {
					needed = append(needed, o)
				}
			}
		}
		isNeeded := map[*Obl]bool{}
		for _, o := range needed {
			isNeeded[o] = true
		}
		res := incAll(func(o *Obl) bool { return isNeeded[o] }, enabled, 400, true)
		// obligations the incremental run could not answer: one by one
		var jobs []job
		for _, vc := range vcs {
			for _, o := range vc.obls {
				if isNeeded[o] {
					if st, ok := res[o]; ok && st == "unsat" {
						o.Status, o.Backend = st, "z3-5.1.0-ematch(incremental)"
						proved[o] = true
					} else if ok && secondChance[o] {
						o.Status, o.Backend = st, "z3-5.1.0-ematch(incremental)"
						proved[o] = false
					} else {
						secondChance[o] = true
						proved[o] = false
						delete(allCores, o)
						jobs = append(jobs, job{vc, o})
					}
				}
			}
		}
		tI := time.Since(tR).Seconds()
		runWith(jobs, enabled, hopts)
		changed := 0
		for _, vc := range vcs {
			for _, o := range vc.obls {
				id := o.Extra["cand"]
				if o.Class == "CAND" && enabled[id] && o.Status != "unsat" {
					enabled[id] = false
					dead[id] = true
					changed++
				}
			}
		}
		// a dead group hands over to its member candidates
		for id := range known {
			if p := eng.candParent[id]; p != "" && dead[p] && !dead[id] && !enabled[id] {
				enabled[id] = true
				changed++
			}
		}
		tlog("houdini round %d: incremental %.1fs (%d answered), one-by-one %d jobs, total %.1fs, changed %d", round, tI, len(res), len(jobs), time.Since(tR).Seconds(), changed)
		if changed == 0 {
			break
		}
	}
	tlog("houdini total %.1fs", time.Since(tStart).Seconds())
	for _, v := range enabled {
		if v {
			kept++
		}
	}
	// final obligations: incremental first, the rest through the portfolio
	res := incAll(func(o *Obl) bool { return o.Class != "CAND" && !(o.Extra != nil && o.Extra["expect"] == "sat") }, enabled, 3000, false)
	var jobs []job
	for _, vc := range vcs {
		for _, o := range vc.obls {
			if o.Class == "CAND" {
				continue
			}
			if st, ok := res[o]; ok && st == "unsat" {
				o.Status, o.Backend = "unsat", "z3-5.1.0-ematch(incremental)"
				stats.mu.Lock()
				stats.Wins[o.Backend]++
				stats.mu.Unlock()
				continue
			}
			jobs = append(jobs, job{vc, o})
		}
	}
	tF := time.Now()
	runWith(jobs, enabled, opts)
	tlog("final: %d by incremental, %d one-by-one in %.1fs", len(res), len(jobs), time.Since(tF).Seconds())
	for _, vc := range vcs {
		vc.enabled = enabled
	}
	return
}
