package main

import (
	"fmt"
	"go/types"
	"os"
	"path/filepath"
	"regexp"
	"strconv"
	"strings"

	"golang.org/x/tools/go/ssa"
)

// ---- expression AST ----

type Expr interface{}

type (
	EIdent struct{ Name string }
	EInt   struct{ V int64 }
	EStr   struct{ V string }
	EBool  struct{ V bool }
	ENil   struct{}
	EField struct {
		X    Expr
		Name string
	}
	EIndex struct{ X, I Expr }
	ECall  struct {
		Fun  Expr
		Args []Expr
	}
	EUn struct {
		Op string
		X  Expr
	}
	EBin struct {
		Op   string
		X, Y Expr
	}
	ECond  struct{ C, A, B Expr }
	EQuant struct {
		All   bool
		Vars  []Binder
		Body  Expr
		Trigs [][]Expr
	}
	EStar struct{ X Expr } // x.* or x[*] in assigns
)

type Binder struct {
	Name string
	Type string
}

// ---- spec database ----

type SpecClause struct {
	Kind  string
	Loop  int
	Text  string
	Expr  Expr
	Label string
	File  string
	Line  int
}

// EachTemplate is an "ensures-each Type[kinds] except a,b: [label] template"
// directive: one ensures clause per field of the struct type, generated from
// go/types of the current working tree ($f = field name).
type EachTemplate struct {
	Agg    bool
	Type   string
	Kinds  []string
	Except map[string]bool
	Label  string
	Text   string
	File   string
	Line   int
}

type FuncSpec struct {
	Each       []*EachTemplate
	Name       string // display name, e.g. sbom.NodeList.RemoveNodes
	Pkg        string
	ParamNames []string
	ParamTypes []string
	Requires   []*SpecClause
	Ensures    []*SpecClause
	Assigns    []*SpecClause
	HasAssigns bool
	Invariants []*SpecClause
	Decreases  []*SpecClause
	Auto       bool // created by package-props (no written contract)
	Owns       bool
	CrashAtomic bool
	Trusted    bool
	Reads      []*EachTemplate
	Inline     bool
	Shadow     bool
	Pure       bool
	Holds      []string
	Props      []string
	modAll     bool
	modComps   map[string]*Sort
}

type PredSpec struct {
	Name   string
	Pkg    string
	Params []Binder
	Body   Expr
	Text   string
}

type LemmaSpec struct {
	Name  string
	Pkg   string
	Expr  Expr
	Text  string
	Props []string
	Class string
	File  string
	Line  int
}

type GlobalDecl struct {
	Name  string
	Kind  string
	Guard string
}

type TypeInv struct {
	Pkg, Type, Text string
	Expr            Expr
}

type SpecDB struct {
	fieldsets map[string][]string // struct type key -> fields with a set view
	imagesets map[string][]string // struct type key -> pure methods with a set view
	pkgProps  map[string][]string // package -> properties every function of the package belongs to
	typeinvs []*TypeInv
	funcs    map[string]*FuncSpec
	preds    map[string]*PredSpec
	lemmas   []*LemmaSpec
	globals  map[string]*GlobalDecl
	ifaces   map[string]*FuncSpec
	ftypes   map[string]*FuncSpec
	files    []string
	expect   map[string]int
	source   map[string]string // file -> "repo" | "mirror"
}

func newSpecDB() *SpecDB {
	return &SpecDB{pkgProps: map[string][]string{}, imagesets: map[string][]string{}, fieldsets: map[string][]string{}, funcs: map[string]*FuncSpec{}, preds: map[string]*PredSpec{}, globals: map[string]*GlobalDecl{},
		ifaces: map[string]*FuncSpec{}, ftypes: map[string]*FuncSpec{}, expect: map[string]int{}, source: map[string]string{}}
}

// specKey computes the lookup key of an SSA function.
func specKey(fn *ssa.Function) string {
	pkg := ""
	if fn.Pkg != nil {
		pkg = fn.Pkg.Pkg.Name()
	} else if fn.Origin() != nil && fn.Origin().Pkg != nil {
		pkg = fn.Origin().Pkg.Pkg.Name()
	} else if fn.Parent() != nil {
		return specKey(fn.Parent()) + strings.TrimPrefix(fn.Name(), fn.Parent().Name())
	}
	if recv := fn.Signature.Recv(); recv != nil {
		if n := namedOf(recv.Type()); n != nil {
			if pkg == "" && n.Obj().Pkg() != nil {
				pkg = n.Obj().Pkg().Name()
			}
			return pkg + "." + n.Obj().Name() + "." + fn.Name()
		}
	}
	if fn.Parent() != nil {
		return specKey(fn.Parent()) + strings.TrimPrefix(fn.Name(), fn.Parent().Name())
	}
	return pkg + "." + fn.Name()
}

func (db *SpecDB) funcSpec(fn *ssa.Function) *FuncSpec {
	k := specKey(fn)
	if s := db.funcs[k]; s != nil {
		return s
	}
	// a contract on a generic function covers all its instantiations
	if i := strings.Index(k, "["); i >= 0 {
		return db.funcs[k[:i]]
	}
	return nil
}

func (db *SpecDB) ifaceSpec(t types.Type, method string) *FuncSpec {
	n := namedOf(t)
	if n == nil || n.Obj().Pkg() == nil {
		return nil
	}
	return db.ifaces[n.Obj().Pkg().Name()+"."+n.Obj().Name()+"."+method]
}

func (db *SpecDB) funcTypeSpec(t types.Type) *FuncSpec {
	n := namedOf(t)
	if n == nil || n.Obj().Pkg() == nil {
		return nil
	}
	return db.ftypes[n.Obj().Pkg().Name()+"."+n.Obj().Name()]
}

// ---- file parsing ----

var clauseKw = map[string]bool{"reads-each": true, "crash-atomic": true, "ensures-agg": true, "ensures-each": true, "requires": true, "ensures": true, "assigns": true, "invariant": true, "decreases": true,
	"owns": true, "trusted": true, "inline": true, "pure": true, "shadow": true, "holds": true, "props": true, "params": true}
var declKw = map[string]bool{"package-props": true, "imageset-of": true, "fieldset-of": true, "typeinv": true, "func": true, "pred": true, "lemma": true, "global": true, "interface": true, "type": true, "expect-obligations": true, "table": true}

type rawClause struct {
	kw   string
	text string
	line int
}

// loadSpecs reads the contract files: /repo/<pkg>/contracts_verif.go when
// present, else the mirror under /verif/contracts.
func loadSpecs(repo, mirror string, overlay map[string][]byte) (*SpecDB, error) {
	db := newSpecDB()
	mfiles, _ := filepath.Glob(filepath.Join(mirror, "*", "contracts_verif.go"))
	seen := map[string]bool{}
	var files []string
	for _, mf := range mfiles {
		rel, _ := filepath.Rel(mirror, mf)
		// mirror layout: contracts/<pkg dir with / replaced by __>/contracts_verif.go
		dir := strings.ReplaceAll(filepath.Dir(rel), "__", "/")
		rf := filepath.Join(repo, dir, "contracts_verif.go")
		if _, err := os.Stat(rf); err == nil && mirror == "/verif/contracts" {
			// the copy in /repo is authoritative; the mirror is where contracts are edited
			if a, e1 := os.ReadFile(rf); e1 == nil {
				if b, e2 := os.ReadFile(mf); e2 == nil && string(a) != string(b) {
					fmt.Fprintf(os.Stderr, "WARNING: %s differs from its mirror %s; the /repo copy is used (run tools/sync_contracts.sh and commit)\n", rf, mf)
				}
			}
			files = append(files, rf)
			db.source[rf] = "repo"
		} else if err == nil {
			// an explicit -contracts directory overrides the copies in /repo (experiments)
			files = append(files, mf)
			db.source[mf] = "explicit contracts directory"
		} else {
			files = append(files, mf)
			db.source[mf] = "mirror (file missing in /repo)"
		}
		seen[rf] = true
	}
	for _, file := range files {
		data, err := os.ReadFile(file)
		if err != nil {
			return nil, err
		}
		if o, ok := overlay[file]; ok {
			data = o
		}
		if err := db.parseFile(file, string(data)); err != nil {
			return nil, err
		}
		db.files = append(db.files, file)
	}
	return db, nil
}

var pkgClauseRe = regexp.MustCompile(`(?m)^package\s+(\w+)`)

func (db *SpecDB) parseFile(file, src string) error {
	m := pkgClauseRe.FindStringSubmatch(src)
	if m == nil {
		return fmt.Errorf("%s: no package clause", file)
	}
	pkg := m[1]
	var raws []rawClause
	for i, line := range strings.Split(src, "\n") {
		t := strings.TrimSpace(line)
		if !strings.HasPrefix(t, "//@") {
			continue
		}
		t = strings.TrimSpace(strings.TrimPrefix(t, "//@"))
		if t == "" || strings.HasPrefix(t, "//") || strings.HasPrefix(t, "#") {
			continue
		}
		// strip trailing comment " // ..."
		if j := strings.Index(t, " // "); j >= 0 {
			t = strings.TrimSpace(t[:j])
		}
		kw := t
		rest := ""
		if j := strings.IndexAny(t, " \t"); j >= 0 {
			kw, rest = t[:j], strings.TrimSpace(t[j+1:])
		}
		if clauseKw[kw] || declKw[kw] {
			raws = append(raws, rawClause{kw, rest, i + 1})
		} else if len(raws) > 0 {
			raws[len(raws)-1].text += " " + t
		} else {
			return fmt.Errorf("%s:%d: continuation without clause", file, i+1)
		}
	}
	var cur *FuncSpec
	for _, r := range raws {
		fail := func(err error) error { return fmt.Errorf("%s:%d: %s %s: %v", file, r.line, r.kw, r.text, err) }
		switch r.kw {
		case "func", "interface", "type":
			name := r.text
			fs := &FuncSpec{Pkg: pkg}
			// optional parameter list for interface / type contracts: Name(p1 T1, p2 T2)
			if j := strings.Index(name, "("); j >= 0 {
				plist := strings.TrimSuffix(strings.TrimSpace(name[j+1:]), ")")
				name = strings.TrimSpace(name[:j])
				for _, p := range strings.Split(plist, ",") {
					p = strings.TrimSpace(p)
					if p == "" {
						continue
					}
					parts := strings.Fields(p)
					fs.ParamNames = append(fs.ParamNames, parts[0])
					if len(parts) > 1 {
						fs.ParamTypes = append(fs.ParamTypes, strings.Join(parts[1:], " "))
					} else {
						fs.ParamTypes = append(fs.ParamTypes, "")
					}
				}
			}
			fs.Name = pkg + "." + name
			switch r.kw {
			case "func":
				db.funcs[fs.Name] = fs
			case "interface":
				db.ifaces[fs.Name] = fs
			case "type":
				db.ftypes[fs.Name] = fs
			}
			cur = fs
		case "pred":
			// pred name(a T, b U) = expr
			eq := strings.Index(r.text, "=")
			lp := strings.Index(r.text, "(")
			rp := strings.Index(r.text, ")")
			if eq < 0 || lp < 0 || rp < 0 || rp > eq {
				return fail(fmt.Errorf("malformed pred"))
			}
			// find the '=' after the parameter list
			eq = rp + strings.Index(r.text[rp:], "=")
			p := &PredSpec{Name: strings.TrimSpace(r.text[:lp]), Pkg: pkg, Text: r.text}
			for _, b := range strings.Split(r.text[lp+1:rp], ",") {
				parts := strings.Fields(strings.TrimSpace(b))
				if len(parts) == 0 {
					continue
				}
				if len(parts) < 2 {
					return fail(fmt.Errorf("pred parameter needs a type"))
				}
				p.Params = append(p.Params, Binder{parts[0], strings.Join(parts[1:], "")})
			}
			e, err := parseExpr(strings.TrimSpace(r.text[eq+1:]))
			if err != nil {
				return fail(err)
			}
			p.Body = e
			db.preds[pkg+"."+p.Name] = p
			cur = nil
		case "lemma", "table":
			// lemma name [C01,C02]: expr
			colon := strings.Index(r.text, ":")
			if colon < 0 {
				return fail(fmt.Errorf("lemma needs name: expr"))
			}
			head := strings.TrimSpace(r.text[:colon])
			l := &LemmaSpec{Pkg: pkg, Text: strings.TrimSpace(r.text[colon+1:]), Class: strings.ToUpper(r.kw), File: file, Line: r.line}
			if lb := strings.Index(head, "["); lb >= 0 {
				for _, p := range strings.Split(strings.Trim(head[lb:], "[]"), ",") {
					l.Props = append(l.Props, strings.TrimSpace(p))
				}
				head = strings.TrimSpace(head[:lb])
			}
			l.Name = pkg + "." + head
			e, err := parseExpr(l.Text)
			if err != nil {
				return fail(err)
			}
			l.Expr = e
			db.lemmas = append(db.lemmas, l)
			cur = nil
		case "global":
			parts := strings.Fields(r.text)
			if len(parts) < 2 {
				return fail(fmt.Errorf("global name kind [guard]"))
			}
			g := &GlobalDecl{Name: pkg + "." + parts[0], Kind: parts[1]}
			if g.Kind == "guarded_by" {
				if len(parts) < 3 {
					return fail(fmt.Errorf("guarded_by needs a lock"))
				}
				g.Guard = pkg + "." + parts[2]
			}
			db.globals[g.Name] = g
			cur = nil
		case "expect-obligations":
			parts := strings.Fields(r.text)
			if len(parts) == 3 {
				n, _ := strconv.Atoi(parts[2])
				db.expect["prop:"+parts[0]] += n
			}
			cur = nil
		case "package-props":
			for _, p := range strings.Split(r.text, ",") {
				db.pkgProps[pkg] = append(db.pkgProps[pkg], strings.TrimSpace(p))
			}
			cur = nil
		case "imageset-of":
			colon := strings.Index(r.text, ":")
			if colon < 0 {
				return fail(fmt.Errorf("imageset-of Type: methods"))
			}
			tk := strings.TrimSpace(r.text[:colon])
			for _, m := range strings.Split(r.text[colon+1:], ",") {
				db.imagesets[tk] = append(db.imagesets[tk], strings.TrimSpace(m))
			}
			cur = nil
		case "fieldset-of":
			// fieldset-of sbom.Node: Id, Name
			colon := strings.Index(r.text, ":")
			if colon < 0 {
				return fail(fmt.Errorf("fieldset-of Type: fields"))
			}
			tk := strings.TrimSpace(r.text[:colon])
			for _, fld := range strings.Split(r.text[colon+1:], ",") {
				db.fieldsets[tk] = append(db.fieldsets[tk], strings.TrimSpace(fld))
			}
			cur = nil
		case "typeinv":
			colon := strings.Index(r.text, ":")
			if colon < 0 {
				return fail(fmt.Errorf("typeinv Type: expr"))
			}
			ti := &TypeInv{Pkg: pkg, Type: strings.TrimSpace(r.text[:colon]), Text: strings.TrimSpace(r.text[colon+1:])}
			e, err := parseExpr(ti.Text)
			if err != nil {
				return fail(err)
			}
			ti.Expr = e
			db.typeinvs = append(db.typeinvs, ti)
			cur = nil
		default:
			if cur == nil {
				return fail(fmt.Errorf("clause outside func"))
			}
			cl := &SpecClause{Kind: r.kw, Text: r.text, File: file, Line: r.line, Loop: -1}
			switch r.kw {
			case "ensures-agg":
				// Type: [label] text with $SUM[kinds]{tmpl} / $AND[kinds]{tmpl} macros
				colon := strings.Index(r.text, ":")
				if colon < 0 {
					return fail(fmt.Errorf("ensures-agg Type: [label] text"))
				}
				et := &EachTemplate{Type: strings.TrimSpace(r.text[:colon]), Agg: true, File: file, Line: r.line, Except: map[string]bool{}}
				body := strings.TrimSpace(r.text[colon+1:])
				if strings.HasPrefix(body, "[") {
					if e := strings.Index(body, "]"); e > 0 {
						et.Label = body[1:e]
						body = strings.TrimSpace(body[e+1:])
					}
				}
				et.Text = body
				cur.Each = append(cur.Each, et)
			case "ensures-each":
				// Type[kind,kind] [except a,b]: [label] template
				colon := strings.Index(r.text, ":")
				lb := strings.Index(r.text, "[")
				rb := strings.Index(r.text, "]")
				if colon < 0 || lb < 0 || rb < 0 || rb > colon {
					return fail(fmt.Errorf("ensures-each Type[kinds] [except a,b]: [label] template"))
				}
				et := &EachTemplate{Type: strings.TrimSpace(r.text[:lb]), Except: map[string]bool{}, File: file, Line: r.line}
				for _, k := range strings.Split(r.text[lb+1:rb], ",") {
					et.Kinds = append(et.Kinds, strings.TrimSpace(k))
				}
				mid := strings.TrimSpace(r.text[rb+1 : colon])
				if strings.HasPrefix(mid, "except") {
					for _, x := range strings.Split(strings.TrimSpace(strings.TrimPrefix(mid, "except")), ",") {
						et.Except[strings.TrimSpace(x)] = true
					}
				}
				body := strings.TrimSpace(r.text[colon+1:])
				if strings.HasPrefix(body, "[") {
					if e := strings.Index(body, "]"); e > 0 {
						et.Label = body[1:e]
						body = strings.TrimSpace(body[e+1:])
					}
				}
				et.Text = body
				cur.Each = append(cur.Each, et)
			case "reads-each":
				// reads-each Type[kinds] [except a,b]: [label]
				// a key function must read every listed field of its receiver: a field it
				// never reads cannot influence the key, so two values that differ only
				// there get the same key
				colon := strings.Index(r.text, ":")
				lb := strings.Index(r.text, "[")
				rb := strings.Index(r.text, "]")
				if colon < 0 || lb < 0 || rb < 0 || rb > colon {
					return fail(fmt.Errorf("reads-each Type[kinds] [except a,b]: [label]"))
				}
				et := &EachTemplate{Type: strings.TrimSpace(r.text[:lb]), Except: map[string]bool{}, File: file, Line: r.line}
				for _, k := range strings.Split(r.text[lb+1:rb], ",") {
					et.Kinds = append(et.Kinds, strings.TrimSpace(k))
				}
				mid := strings.TrimSpace(r.text[rb+1 : colon])
				if strings.HasPrefix(mid, "except") {
					for _, x := range strings.Split(strings.TrimSpace(strings.TrimPrefix(mid, "except")), ",") {
						et.Except[strings.TrimSpace(x)] = true
					}
				}
				body := strings.TrimSpace(r.text[colon+1:])
				if strings.HasPrefix(body, "[") {
					if e := strings.Index(body, "]"); e > 0 {
						et.Label = body[1:e]
					}
				}
				cur.Reads = append(cur.Reads, et)
			case "crash-atomic":
				cur.CrashAtomic = true
			case "owns":
				cur.Owns = true
			case "trusted":
				cur.Trusted = true
			case "inline":
				cur.Inline = true
			case "shadow":
				// shadow: the function is a state-independent function of scalar
				// arguments; every inlined call also defines an uninterpreted shadow
				// function at its arguments, which contracts may use under quantifiers
				cur.Shadow = true
				cur.Inline = true
			case "pure":
				cur.Pure = true
			case "holds":
				cur.Holds = append(cur.Holds, pkg+"."+r.text)
			case "props":
				for _, p := range strings.Split(r.text, ",") {
					cur.Props = append(cur.Props, strings.TrimSpace(p))
				}
			case "assigns":
				cur.HasAssigns = true
				if strings.TrimSpace(r.text) == `\nothing` {
					continue
				}
				for _, part := range splitTop(r.text, ',') {
					e, err := parseExpr(strings.TrimSpace(part))
					if err != nil {
						return fail(err)
					}
					cur.Assigns = append(cur.Assigns, &SpecClause{Kind: "assigns", Text: strings.TrimSpace(part), Expr: e, File: file, Line: r.line})
				}
			case "invariant", "decreases":
				// invariant L<k>: expr
				text := r.text
				if strings.HasPrefix(text, "L") {
					if colon := strings.Index(text, ":"); colon > 0 {
						n, err := strconv.Atoi(text[1:colon])
						if err == nil {
							cl.Loop = n
							text = strings.TrimSpace(text[colon+1:])
						}
					}
				}
				if cl.Loop < 0 && r.kw == "invariant" {
					return fail(fmt.Errorf("invariant needs a loop label L<k>:"))
				}
				// optional label: [name]
				if strings.HasPrefix(text, "[") {
					if rb := strings.Index(text, "]"); rb > 0 {
						cl.Label = text[1:rb]
						text = strings.TrimSpace(text[rb+1:])
					}
				}
				cl.Text = text
				e, err := parseExpr(text)
				if err != nil {
					return fail(err)
				}
				cl.Expr = e
				if r.kw == "invariant" {
					cur.Invariants = append(cur.Invariants, cl)
				} else {
					cur.Decreases = append(cur.Decreases, cl)
				}
			case "requires", "ensures":
				text := r.text
				// optional label: [name]
				if strings.HasPrefix(text, "[") {
					if rb := strings.Index(text, "]"); rb > 0 {
						cl.Label = text[1:rb]
						text = strings.TrimSpace(text[rb+1:])
					}
				}
				cl.Text = text
				e, err := parseExpr(text)
				if err != nil {
					return fail(err)
				}
				cl.Expr = e
				if r.kw == "requires" {
					cur.Requires = append(cur.Requires, cl)
				} else {
					cur.Ensures = append(cur.Ensures, cl)
				}
			}
		}
	}
	return nil
}

func splitTop(s string, sep rune) []string {
	var out []string
	depth := 0
	start := 0
	inStr := false
	for i, r := range s {
		switch {
		case r == '"':
			inStr = !inStr
		case inStr:
		case r == '(' || r == '[':
			depth++
		case r == ')' || r == ']':
			depth--
		case r == sep && depth == 0:
			out = append(out, s[start:i])
			start = i + 1
		}
	}
	out = append(out, s[start:])
	return out
}

// ---- tokenizer / parser ----

type tok struct {
	kind string // id, int, str, op
	text string
}

func tokenize(s string) ([]tok, error) {
	var toks []tok
	i := 0
	ops := []string{"<==>", "==>", "&&", "||", "==", "!=", "<=", ">=", "::", "<", ">", "+", "-", "*", "/", "%", "(", ")", "[", "]", ",", "?", ":", ".", "!", "{", "}"}
	for i < len(s) {
		c := s[i]
		switch {
		case c == ' ' || c == '\t':
			i++
		case c == '"':
			j := i + 1
			for j < len(s) && s[j] != '"' {
				if s[j] == '\\' {
					j++
				}
				j++
			}
			if j >= len(s) {
				return nil, fmt.Errorf("unterminated string")
			}
			v, err := strconv.Unquote(s[i : j+1])
			if err != nil {
				return nil, err
			}
			toks = append(toks, tok{"str", v})
			i = j + 1
		case c >= '0' && c <= '9':
			j := i
			for j < len(s) && ((s[j] >= '0' && s[j] <= '9') || s[j] == 'x' || (s[j] >= 'a' && s[j] <= 'f')) {
				j++
			}
			toks = append(toks, tok{"int", s[i:j]})
			i = j
		case c == '_' || (c >= 'a' && c <= 'z') || (c >= 'A' && c <= 'Z') || c == '\\' || c == '$':
			j := i + 1
			for j < len(s) && (s[j] == '_' || s[j] == '$' || (s[j] >= 'a' && s[j] <= 'z') || (s[j] >= 'A' && s[j] <= 'Z') || (s[j] >= '0' && s[j] <= '9')) {
				j++
			}
			toks = append(toks, tok{"id", s[i:j]})
			i = j
		default:
			matched := false
			for _, op := range ops {
				if strings.HasPrefix(s[i:], op) {
					toks = append(toks, tok{"op", op})
					i += len(op)
					matched = true
					break
				}
			}
			if !matched {
				return nil, fmt.Errorf("unexpected character %q at %d", c, i)
			}
		}
	}
	return toks, nil
}

type parser struct {
	toks []tok
	pos  int
}

func parseExpr(s string) (Expr, error) {
	toks, err := tokenize(s)
	if err != nil {
		return nil, err
	}
	p := &parser{toks: toks}
	e, err := p.expr()
	if err != nil {
		return nil, err
	}
	if p.pos < len(p.toks) {
		return nil, fmt.Errorf("trailing tokens at %q", p.toks[p.pos].text)
	}
	return e, nil
}

func (p *parser) peek() tok {
	if p.pos < len(p.toks) {
		return p.toks[p.pos]
	}
	return tok{"eof", ""}
}
func (p *parser) isOp(s string) bool { t := p.peek(); return t.kind == "op" && t.text == s }
func (p *parser) isId(s string) bool { t := p.peek(); return t.kind == "id" && t.text == s }
func (p *parser) eat(s string) bool {
	if p.isOp(s) {
		p.pos++
		return true
	}
	return false
}
func (p *parser) expect(s string) error {
	if !p.eat(s) {
		return fmt.Errorf("expected %q, got %q", s, p.peek().text)
	}
	return nil
}

func (p *parser) expr() (Expr, error) {
	if p.isId("forall") || p.isId("exists") {
		all := p.peek().text == "forall"
		p.pos++
		var vars []Binder
		for {
			var names []string
			for {
				t := p.peek()
				if t.kind != "id" {
					return nil, fmt.Errorf("binder name expected")
				}
				p.pos++
				names = append(names, t.text)
				if !p.eat(",") {
					break
				}
			}
			ty, err := p.typ()
			if err != nil {
				return nil, err
			}
			for _, n := range names {
				vars = append(vars, Binder{n, ty})
			}
			if !p.eat(",") {
				break
			}
		}
		if err := p.expect("::"); err != nil {
			return nil, err
		}
		body, err := p.expr()
		if err != nil {
			return nil, err
		}
		return &EQuant{All: all, Vars: vars, Body: body}, nil
	}
	e, err := p.iff()
	if err != nil {
		return nil, err
	}
	if p.eat("?") {
		a, err := p.expr()
		if err != nil {
			return nil, err
		}
		if err := p.expect(":"); err != nil {
			return nil, err
		}
		b, err := p.expr()
		if err != nil {
			return nil, err
		}
		return &ECond{e, a, b}, nil
	}
	return e, nil
}

func (p *parser) typ() (string, error) {
	s := ""
	for p.isOp("*") || p.isOp("[") || p.isOp("]") {
		s += p.peek().text
		p.pos++
	}
	t := p.peek()
	if t.kind != "id" {
		return "", fmt.Errorf("type expected, got %q", t.text)
	}
	p.pos++
	s += t.text
	if p.isOp(".") {
		p.pos++
		t2 := p.peek()
		p.pos++
		s += "." + t2.text
	}
	return s, nil
}

func (p *parser) iff() (Expr, error) {
	x, err := p.imp()
	if err != nil {
		return nil, err
	}
	for p.eat("<==>") {
		y, err := p.imp()
		if err != nil {
			return nil, err
		}
		x = &EBin{"<==>", x, y}
	}
	return x, nil
}

func (p *parser) imp() (Expr, error) {
	x, err := p.or()
	if err != nil {
		return nil, err
	}
	if p.eat("==>") {
		var y Expr
		if p.isId("forall") || p.isId("exists") {
			y, err = p.expr()
		} else {
			y, err = p.imp()
		}
		if err != nil {
			return nil, err
		}
		return &EBin{"==>", x, y}, nil
	}
	return x, nil
}

func (p *parser) or() (Expr, error) {
	x, err := p.and()
	if err != nil {
		return nil, err
	}
	for p.eat("||") {
		y, err := p.and()
		if err != nil {
			return nil, err
		}
		x = &EBin{"||", x, y}
	}
	return x, nil
}

func (p *parser) and() (Expr, error) {
	x, err := p.cmp()
	if err != nil {
		return nil, err
	}
	for p.eat("&&") {
		var y Expr
		if p.isId("forall") || p.isId("exists") {
			y, err = p.expr()
		} else {
			y, err = p.cmp()
		}
		if err != nil {
			return nil, err
		}
		x = &EBin{"&&", x, y}
	}
	return x, nil
}

func (p *parser) cmp() (Expr, error) {
	x, err := p.add()
	if err != nil {
		return nil, err
	}
	t := p.peek()
	if t.kind == "op" {
		switch t.text {
		case "==", "!=", "<", "<=", ">", ">=":
			p.pos++
			y, err := p.add()
			if err != nil {
				return nil, err
			}
			return &EBin{t.text, x, y}, nil
		}
	}
	if t.kind == "id" && t.text == "in" {
		p.pos++
		y, err := p.add()
		if err != nil {
			return nil, err
		}
		return &EBin{"in", x, y}, nil
	}
	return x, nil
}

func (p *parser) add() (Expr, error) {
	x, err := p.mul()
	if err != nil {
		return nil, err
	}
	for p.isOp("+") || p.isOp("-") {
		op := p.peek().text
		p.pos++
		y, err := p.mul()
		if err != nil {
			return nil, err
		}
		x = &EBin{op, x, y}
	}
	return x, nil
}

func (p *parser) mul() (Expr, error) {
	x, err := p.unary()
	if err != nil {
		return nil, err
	}
	for p.isOp("*") || p.isOp("/") || p.isOp("%") {
		// "x.*" / "x[*]" are handled in postfix
		op := p.peek().text
		p.pos++
		y, err := p.unary()
		if err != nil {
			return nil, err
		}
		x = &EBin{op, x, y}
	}
	return x, nil
}

func (p *parser) unary() (Expr, error) {
	if p.eat("!") {
		x, err := p.unary()
		if err != nil {
			return nil, err
		}
		return &EUn{"!", x}, nil
	}
	if p.eat("-") {
		x, err := p.unary()
		if err != nil {
			return nil, err
		}
		return &EUn{"-", x}, nil
	}
	if p.eat("*") {
		x, err := p.unary()
		if err != nil {
			return nil, err
		}
		return &EUn{"*", x}, nil
	}
	return p.postfix()
}

func (p *parser) postfix() (Expr, error) {
	x, err := p.primary()
	if err != nil {
		return nil, err
	}
	for {
		switch {
		case p.eat("."):
			if p.eat("*") {
				x = &EStar{x}
				continue
			}
			t := p.peek()
			if t.kind != "id" {
				return nil, fmt.Errorf("field name expected after '.'")
			}
			p.pos++
			x = &EField{x, t.text}
		case p.eat("["):
			if p.eat("*") {
				if err := p.expect("]"); err != nil {
					return nil, err
				}
				x = &EStar{&EIndex{x, nil}}
				continue
			}
			i, err := p.expr()
			if err != nil {
				return nil, err
			}
			if err := p.expect("]"); err != nil {
				return nil, err
			}
			x = &EIndex{x, i}
		case p.eat("("):
			var args []Expr
			if !p.isOp(")") {
				for {
					a, err := p.expr()
					if err != nil {
						return nil, err
					}
					args = append(args, a)
					if !p.eat(",") {
						break
					}
				}
			}
			if err := p.expect(")"); err != nil {
				return nil, err
			}
			x = &ECall{x, args}
		default:
			return x, nil
		}
	}
}

func (p *parser) primary() (Expr, error) {
	t := p.peek()
	switch t.kind {
	case "int":
		p.pos++
		v, err := strconv.ParseInt(t.text, 0, 64)
		if err != nil {
			return nil, err
		}
		return &EInt{v}, nil
	case "str":
		p.pos++
		return &EStr{t.text}, nil
	case "id":
		p.pos++
		switch t.text {
		case "true":
			return &EBool{true}, nil
		case "false":
			return &EBool{false}, nil
		case "nil":
			return &ENil{}, nil
		}
		return &EIdent{t.text}, nil
	case "op":
		if t.text == "(" {
			p.pos++
			e, err := p.expr()
			if err != nil {
				return nil, err
			}
			if err := p.expect(")"); err != nil {
				return nil, err
			}
			return e, nil
		}
	}
	return nil, fmt.Errorf("unexpected token %q", t.text)
}

// fieldsetsFor lists the fields F for which some contract uses
// fieldset(<slice of *T>, F); found by scanning the contract text.
func (db *SpecDB) fieldsetsFor(typeKey string) []string {
	return db.fieldsets[typeKey]
}

func (db *SpecDB) typeinvTexts() []string {
	var out []string
	for _, t := range db.typeinvs {
		out = append(out, t.Pkg+"."+t.Type+": "+t.Text)
	}
	return out
}

// fieldKind classifies a struct field type for ensures-each templates.
func fieldKind(t types.Type) string {
	switch u := t.Underlying().(type) {
	case *types.Basic:
		switch {
		case u.Info()&types.IsString != 0:
			return "string"
		case u.Info()&types.IsBoolean != 0:
			return "bool"
		case u.Info()&types.IsInteger != 0:
			if _, named := t.(*types.Named); named {
				return "enum"
			}
			return "int"
		}
	case *types.Slice:
		if _, ok := u.Elem().Underlying().(*types.Pointer); ok {
			return "ptrslice"
		}
		return "slice"
	case *types.Map:
		return "map"
	case *types.Pointer:
		return "ptr"
	}
	return "other"
}

// expandTemplates turns ensures-each directives into ensures clauses using the
// struct types of the loaded program.
func (db *SpecDB) expandTemplates(eng *Engine) error {
	// package-props: every function of the package is verified for these
	// properties; functions without a written contract are transparent.
	for k, fn := range eng.funcs {
		if fn.Pkg == nil && fn.Parent() == nil {
			continue
		}
		pkg := strings.SplitN(k, ".", 2)[0]
		props := db.pkgProps[pkg]
		if len(props) == 0 || strings.Contains(fn.Name(), "$") {
			continue
		}
		fs := db.funcs[k]
		if fs == nil {
			if i := strings.Index(k, "["); i >= 0 && db.funcs[k[:i]] != nil {
				continue
			}
			fs = &FuncSpec{Name: k, Pkg: pkg, Inline: true, Auto: true}
			db.funcs[k] = fs
		}
		for _, p := range props {
			has := false
			for _, q := range fs.Props {
				if q == p {
					has = true
				}
			}
			if !has {
				fs.Props = append(fs.Props, p)
			}
		}
	}
	for _, fs := range db.funcs {
		for _, et := range fs.Each {
			pkg := eng.typesPkgByName(fs.Pkg)
			tn := et.Type
			if i := strings.Index(tn, "."); i >= 0 {
				pkg = eng.typesPkgByName(tn[:i])
				tn = tn[i+1:]
			}
			if pkg == nil {
				return fmt.Errorf("%s:%d: unknown package for %s", et.File, et.Line, et.Type)
			}
			o := pkg.Scope().Lookup(tn)
			if o == nil {
				return fmt.Errorf("%s:%d: unknown type %s", et.File, et.Line, et.Type)
			}
			st, ok := o.Type().Underlying().(*types.Struct)
			if !ok {
				return fmt.Errorf("%s:%d: %s is not a struct", et.File, et.Line, et.Type)
			}
			if et.Agg {
				text, err := expandAggMacros(et.Text, st)
				if err != nil {
					return fmt.Errorf("%s:%d: %v", et.File, et.Line, err)
				}
				e, err := parseExpr(text)
				if err != nil {
					return fmt.Errorf("%s:%d: %s: %v", et.File, et.Line, text, err)
				}
				fs.Ensures = append(fs.Ensures, &SpecClause{Kind: "ensures", Text: et.Text, Expr: e, Label: et.Label, File: et.File, Line: et.Line, Loop: -1})
				continue
			}
			n := 0
			for i := 0; i < st.NumFields(); i++ {
				f := st.Field(i)
				if isProtoInternalField(f) || et.Except[f.Name()] {
					continue
				}
				k := fieldKind(f.Type())
				match := false
				for _, want := range et.Kinds {
					if want == k || want == "all" {
						match = true
					}
				}
				if !match {
					continue
				}
				text := strings.ReplaceAll(et.Text, "$f", f.Name())
				e, err := parseExpr(text)
				if err != nil {
					return fmt.Errorf("%s:%d: %s: %v", et.File, et.Line, text, err)
				}
				label := strings.ReplaceAll(et.Label, "$f", f.Name())
				fs.Ensures = append(fs.Ensures, &SpecClause{Kind: "ensures", Text: text, Expr: e, Label: label, File: et.File, Line: et.Line, Loop: -1})
				n++
			}
			if n == 0 {
				return fmt.Errorf("%s:%d: ensures-each %s[%v] matched no field", et.File, et.Line, et.Type, et.Kinds)
			}
		}
		fs.Each = nil
	}
	return nil
}

// expandAggMacros expands $SUM[kinds]{tmpl} and $AND[kinds]{tmpl} over the
// fields of st whose kind is listed ($f = field name).
func expandAggMacros(text string, st *types.Struct) (string, error) {
	for {
		i := strings.Index(text, "$SUM[")
		op, unit := " + ", "0"
		j := strings.Index(text, "$AND[")
		if i < 0 || (j >= 0 && j < i) {
			i, op, unit = j, " && ", "true"
		}
		if i < 0 {
			return text, nil
		}
		rb := strings.Index(text[i:], "]")
		if rb < 0 || i+rb+1 >= len(text) || text[i+rb+1] != '{' {
			return "", fmt.Errorf("malformed macro in %q", text)
		}
		kinds := strings.Split(text[i+5:i+rb], ",")
		// matching brace
		depth, end := 0, -1
		for k := i + rb + 1; k < len(text); k++ {
			if text[k] == '{' {
				depth++
			} else if text[k] == '}' {
				depth--
				if depth == 0 {
					end = k
					break
				}
			}
		}
		if end < 0 {
			return "", fmt.Errorf("unbalanced macro in %q", text)
		}
		tmpl := text[i+rb+2 : end]
		var parts []string
		for fi := 0; fi < st.NumFields(); fi++ {
			f := st.Field(fi)
			if isProtoInternalField(f) {
				continue
			}
			k := fieldKind(f.Type())
			for _, want := range kinds {
				if strings.TrimSpace(want) == k {
					parts = append(parts, "("+strings.ReplaceAll(tmpl, "$f", f.Name())+")")
				}
			}
		}
		rep := unit
		if len(parts) > 0 {
			rep = "(" + strings.Join(parts, op) + ")"
		}
		text = text[:i] + rep + text[end+1:]
	}
}
