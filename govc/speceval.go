package main

import (
	"fmt"
	"go/types"
	"strings"

	"golang.org/x/tools/go/ssa"
)

// SpecEnv evaluates contract expressions to SMT terms.
type SpecEnv struct {
	f       *Frame
	fn      *ssa.Function
	spec    *FuncSpec
	pkg     *types.Package
	params  map[string]Val
	results []Val
	bound   map[string]Val
	pre     *State // state at function entry (for fresh())
	locals  func(name string) (Val, bool)
	qn      int
	err     error
}

func (e *SpecEnv) fail(format string, a ...any) Val {
	msg := fmt.Sprintf(format, a...)
	if e.err == nil {
		e.err = fmt.Errorf("%s", msg)
	}
	name := "?"
	if e.spec != nil {
		name = e.spec.Name
	}
	e.f.vc.unsupported("contract %s: %s", name, msg)
	return scalar(types.Typ[types.Bool], e.f.vc.fresh("specerr", SBool))
}

func (e *SpecEnv) scopePkg() *types.Package {
	if e.pkg != nil {
		return e.pkg
	}
	if e.fn != nil {
		if e.fn.Pkg != nil {
			return e.fn.Pkg.Pkg
		}
		if e.fn.Origin() != nil && e.fn.Origin().Pkg != nil {
			return e.fn.Origin().Pkg.Pkg
		}
		if e.fn.Parent() != nil && e.fn.Parent().Pkg != nil {
			return e.fn.Parent().Pkg.Pkg
		}
	}
	if e.f != nil && e.f.fn != nil && e.f.fn.Pkg != nil {
		return e.f.fn.Pkg.Pkg
	}
	return nil
}

// resolveType parses a type written in a contract.
func (e *SpecEnv) resolveType(s string) types.Type {
	s = strings.TrimSpace(s)
	switch {
	case strings.HasPrefix(s, "*"):
		t := e.resolveType(s[1:])
		if t == nil {
			return nil
		}
		return types.NewPointer(t)
	case strings.HasPrefix(s, "[]"):
		t := e.resolveType(s[2:])
		if t == nil {
			return nil
		}
		return types.NewSlice(t)
	}
	for _, b := range types.Typ {
		if b.Name() == s {
			return b
		}
	}
	// type parameters of a generic instantiation
	if e.fn != nil && e.fn.TypeParams() != nil && len(e.fn.TypeArgs()) == e.fn.TypeParams().Len() {
		for i := 0; i < e.fn.TypeParams().Len(); i++ {
			if e.fn.TypeParams().At(i).Obj().Name() == s {
				return e.fn.TypeArgs()[i]
			}
		}
	}
	if s == "ref" {
		return types.Typ[types.UnsafePointer]
	}
	pkg := e.scopePkg()
	if i := strings.Index(s, "."); i >= 0 {
		pn, tn := s[:i], s[i+1:]
		for _, p := range e.f.vc.eng.typesPkgsByName(pn) {
			if o := p.Scope().Lookup(tn); o != nil {
				if _, ok := o.(*types.TypeName); ok {
					return o.Type()
				}
			}
		}
		return nil
	}
	if pkg != nil {
		if o := pkg.Scope().Lookup(s); o != nil {
			if _, ok := o.(*types.TypeName); ok {
				return o.Type()
			}
		}
	}
	return nil
}

func (e *SpecEnv) evalBool(x Expr, cur, old *State) Term {
	v := e.eval(x, cur, old)
	if len(v.L) != 1 || v.L[0].Sort.Name != "Bool" {
		return e.fail("expression is not boolean").one()
	}
	return v.one()
}

var intT = types.Typ[types.Int]
var boolT = types.Typ[types.Bool]
var strT = types.Typ[types.String]

func (e *SpecEnv) eval(x Expr, cur, old *State) Val {
	vc := e.f.vc
	switch n := x.(type) {
	case *EInt:
		return scalar(intT, IntT(n.V))
	case *EStr:
		vc.lits[n.V] = true
		return scalar(strT, StrT(n.V))
	case *EBool:
		return scalar(boolT, BoolT(n.V))
	case *ENil:
		return Val{T: types.Typ[types.UntypedNil], L: []Term{Zero}}
	case *EIdent:
		return e.ident(n.Name, cur)
	case *EField:
		// qualified constant / global: pkg.Name
		if id, ok := n.X.(*EIdent); ok {
			if _, isVar := e.lookupVar(id.Name, cur); !isVar {
				if p := vc.eng.typesPkgByName(id.Name); p != nil {
					return e.pkgObject(p, n.Name, cur)
				}
			}
		}
		b := e.eval(n.X, cur, old)
		return e.field(b, n.Name, cur)
	case *EIndex:
		b := e.eval(n.X, cur, old)
		i := e.eval(n.I, cur, old)
		return e.index(b, i, cur)
	case *ECall:
		return e.callExpr(n, cur, old)
	case *EUn:
		v := e.eval(n.X, cur, old)
		if n.Op == "!" {
			return scalar(boolT, Not(v.one()))
		}
		if n.Op == "*" {
			if _, ok := v.T.Underlying().(*types.Pointer); !ok {
				return e.fail("dereference of non-pointer %s", v.T)
			}
			return vc.load(cur, e.f.ptrLoc(v))
		}
		return scalar(intT, mk(SInt, "-", v.one()))
	case *ECond:
		c := e.eval(n.C, cur, old).one()
		a := e.eval(n.A, cur, old)
		b := e.eval(n.B, cur, old)
		a, b = e.unifyNil(a, b)
		out := Val{T: a.T}
		if len(a.L) != len(b.L) {
			return e.fail("conditional branches have different layouts")
		}
		for i := range a.L {
			out.L = append(out.L, Ite(c, a.L[i], b.L[i]))
		}
		return out
	case *EBin:
		return e.binary(n, cur, old)
	case *EQuant:
		saved := map[string]Val{}
		var vars []Term
		var guards []Term
		for _, b := range n.Vars {
			t := e.resolveType(b.Type)
			if t == nil {
				return e.fail("unknown type %s in binder", b.Type)
			}
			lay := layout(t)
			if len(lay) != 1 {
				return e.fail("binder %s of non-scalar type %s", b.Name, b.Type)
			}
			q := Term{sym(fmt.Sprintf("%s!%d", b.Name, e.qn+1)), lay[0].Sort}
			if old, ok := e.bound[b.Name]; ok {
				saved[b.Name] = old
			}
			if e.bound == nil {
				e.bound = map[string]Val{}
			}
			e.bound[b.Name] = scalar(t, q)
			vars = append(vars, q)
			e.f.vc.binders = append(e.f.vc.binders, q.S)
			_ = guards
		}
		e.qn++
		body := e.eval(n.Body, cur, old).one()
		e.qn--
		e.f.vc.binders = e.f.vc.binders[:len(e.f.vc.binders)-len(n.Vars)]
		for _, b := range n.Vars {
			if o, ok := saved[b.Name]; ok {
				e.bound[b.Name] = o
			} else {
				delete(e.bound, b.Name)
			}
		}
		pats := selectPatterns(body.S, vars)
		if n.All {
			return scalar(boolT, Forall(vars, body, pats...))
		}
		return scalar(boolT, Exists(vars, body, pats...))
	}
	return e.fail("unsupported expression %T", x)
}

func (e *SpecEnv) lookupVar(name string, cur *State) (Val, bool) {
	if v, ok := e.bound[name]; ok {
		return v, true
	}
	if v, ok := e.params[name]; ok {
		return v, true
	}
	if name == "result" && len(e.results) > 0 {
		return e.results[0], true
	}
	if strings.HasPrefix(name, "result") && len(name) == 7 {
		i := int(name[6] - '0')
		if i >= 0 && i < len(e.results) {
			return e.results[i], true
		}
	}
	if e.fn != nil && e.results != nil {
		res := e.fn.Signature.Results()
		for i := 0; i < res.Len(); i++ {
			if res.At(i).Name() == name && i < len(e.results) {
				return e.results[i], true
			}
		}
	}
	if e.locals != nil {
		if v, ok := e.locals(name); ok {
			return v, true
		}
	}
	return Val{}, false
}

func (e *SpecEnv) ident(name string, cur *State) Val {
	if v, ok := e.lookupVar(name, cur); ok {
		return v
	}
	if pkg := e.scopePkg(); pkg != nil {
		if o := pkg.Scope().Lookup(name); o != nil {
			return e.object(o, cur)
		}
	}
	return e.fail("unknown identifier %s", name)
}

func (e *SpecEnv) pkgObject(p *types.Package, name string, cur *State) Val {
	o := p.Scope().Lookup(name)
	if o == nil {
		return e.fail("unknown %s.%s", p.Name(), name)
	}
	return e.object(o, cur)
}

func (e *SpecEnv) object(o types.Object, cur *State) Val {
	vc := e.f.vc
	switch x := o.(type) {
	case *types.Const:
		c := ssa.NewConst(x.Val(), x.Type())
		return e.f.constVal(c)
	case *types.Var:
		name := x.Pkg().Name() + "." + x.Name()
		loc := &Loc{Kind: LGlobal, Root: "G|" + name, T: x.Type()}
		return vc.load(cur, loc)
	}
	return e.fail("identifier %s is not a value", o.Name())
}

func (e *SpecEnv) field(b Val, name string, cur *State) Val {
	vc := e.f.vc
	t := b.T
	if p, ok := t.Underlying().(*types.Pointer); ok {
		st, ok := p.Elem().Underlying().(*types.Struct)
		if !ok {
			return e.fail("field %s of non-struct pointer %s", name, t)
		}
		for i := 0; i < st.NumFields(); i++ {
			if st.Field(i).Name() == name {
				base := e.f.ptrLoc(b)
				loc := &Loc{Kind: base.Kind, Base: base.Base, Idx: base.Idx, Root: base.Root, Path: base.Path + "." + name, T: st.Field(i).Type(), Interior: true}
				return vc.load(cur, loc)
			}
		}
		return e.fail("no field %s in %s", name, t)
	}
	if st, ok := t.Underlying().(*types.Struct); ok {
		for i := 0; i < st.NumFields(); i++ {
			if st.Field(i).Name() == name {
				lo, hi, _ := fieldRange(t, i)
				return Val{T: st.Field(i).Type(), L: b.L[lo:hi]}
			}
		}
	}
	return e.fail("field %s of %s", name, t)
}

func (e *SpecEnv) index(b, i Val, cur *State) Val {
	vc := e.f.vc
	switch u := b.T.Underlying().(type) {
	case *types.Slice:
		loc := &Loc{Kind: LElem, Base: b.arr(), Idx: i.one(), Root: "E|" + typeKey(u.Elem()), T: u.Elem()}
		return vc.load(cur, loc)
	case *types.Map:
		dom, _, vals := e.f.mapComps(b.T)
		in := Select(Select(vc.get(cur, dom), b.one()), i.one())
		out := Val{T: u.Elem()}
		for k, lf := range layout(u.Elem()) {
			out.L = append(out.L, Ite(in, Select(Select(vc.get(cur, vals[k]), b.one()), i.one()), zeroOf(lf.Sort)))
		}
		return out
	}
	return e.fail("index of %s", b.T)
}

func (e *SpecEnv) unifyNil(a, b Val) (Val, Val) {
	isNil := func(v Val) bool {
		bb, ok := v.T.(*types.Basic)
		return ok && bb.Kind() == types.UntypedNil
	}
	if isNil(a) && !isNil(b) {
		return zeroVal(b.T), b
	}
	if isNil(b) && !isNil(a) {
		return a, zeroVal(a.T)
	}
	return a, b
}

func (e *SpecEnv) binary(n *EBin, cur, old *State) Val {
	vc := e.f.vc
	switch n.Op {
	case "&&", "||", "==>", "<==>":
		a := e.eval(n.X, cur, old)
		b := e.eval(n.Y, cur, old)
		if len(a.L) != 1 || len(b.L) != 1 || a.L[0].Sort.Name != "Bool" || b.L[0].Sort.Name != "Bool" {
			return e.fail("operands of %s are not boolean", n.Op)
		}
		switch n.Op {
		case "&&":
			return scalar(boolT, And(a.one(), b.one()))
		case "||":
			return scalar(boolT, Or(a.one(), b.one()))
		case "==>":
			return scalar(boolT, Imp(a.one(), b.one()))
		default:
			return scalar(boolT, Eq(a.one(), b.one()))
		}
	case "in":
		k := e.eval(n.X, cur, old)
		m := e.eval(n.Y, cur, old)
		if m.Set != nil {
			return scalar(boolT, Select(m.L[0], k.one()))
		}
		if _, ok := m.T.Underlying().(*types.Map); !ok {
			return e.fail("'in' needs a map or a set on the right")
		}
		dom, _, _ := e.f.mapComps(m.T)
		return scalar(boolT, Select(Select(vc.get(cur, dom), m.one()), k.one()))
	case "==", "!=":
		a := e.eval(n.X, cur, old)
		b := e.eval(n.Y, cur, old)
		var eq Term
		_, aNil := n.X.(*ENil)
		_, bNil := n.Y.(*ENil)
		switch {
		case aNil || bNil:
			v := a
			if aNil {
				v = b
			}
			eq = Eq(v.L[0], Zero) // pointer/map ref, slice arr, interface tag
		default:
			if len(a.L) != len(b.L) {
				return e.fail("comparison of values with different layouts (%s vs %s)", a.T, b.T)
			}
			eq = valEq(a, b)
		}
		if n.Op == "!=" {
			eq = Not(eq)
		}
		return scalar(boolT, eq)
	}
	a := e.eval(n.X, cur, old)
	b := e.eval(n.Y, cur, old)
	if len(a.L) != 1 || len(b.L) != 1 {
		return e.fail("operands of %s are not scalar", n.Op)
	}
	x, y := a.one(), b.one()
	if x.Sort.Name == "String" {
		switch n.Op {
		case "+":
			return scalar(strT, mk(SStr, "str.++", x, y))
		case "<":
			return scalar(boolT, mk(SBool, "str.<", x, y))
		case "<=":
			return scalar(boolT, mk(SBool, "str.<=", x, y))
		}
		return e.fail("string operator %s", n.Op)
	}
	switch n.Op {
	case "+":
		return scalar(intT, Add(x, y))
	case "-":
		return scalar(intT, Sub(x, y))
	case "*":
		return scalar(intT, Mul(x, y))
	case "/":
		return scalar(intT, mk(SInt, "div", x, y))
	case "%":
		return scalar(intT, mk(SInt, "mod", x, y))
	case "<":
		return scalar(boolT, Lt(x, y))
	case "<=":
		return scalar(boolT, Le(x, y))
	case ">":
		return scalar(boolT, Gt(x, y))
	case ">=":
		return scalar(boolT, Ge(x, y))
	}
	return e.fail("operator %s", n.Op)
}

func (e *SpecEnv) callExpr(n *ECall, cur, old *State) Val {
	vc := e.f.vc
	if id, ok := n.Fun.(*EIdent); ok {
		switch id.Name {
		case "old":
			if old == nil {
				// in a precondition old(e) == e
				return e.eval(n.Args[0], cur, nil)
			}
			return e.eval(n.Args[0], old, nil)
		case "len":
			v := e.eval(n.Args[0], cur, old)
			switch v.T.Underlying().(type) {
			case *types.Slice:
				return scalar(intT, v.len())
			case *types.Map:
				_, size, _ := e.f.mapComps(v.T)
				sz := Select(vc.get(cur, size), v.one())
				vc.fact(Ge(sz, Zero)) // memory-model truth: sizes are never negative
				// size and domain agree: a key in the domain means size >= 1; size >= 1 has a witness
				mt := v.T.Underlying().(*types.Map)
				dom, _, _ := e.f.mapComps(v.T)
				d := Select(vc.get(cur, dom), v.one())
				kq := Term{"k!q", keySort(mt.Key())}
				key := "mapsize|" + d.S
				if !vc.declared[key] {
					vc.declared[key] = true
					vc.fact(Forall([]Term{kq}, Imp(Select(d, kq), Ge(sz, One)), []Term{Select(d, kq)}))
					kq2 := Term{"k!q2", keySort(mt.Key())}
					vc.fact(Forall([]Term{kq, kq2}, Imp(And(Select(d, kq), Select(d, kq2), Ne(kq, kq2)), Ge(sz, IntT(2))), []Term{Select(d, kq), Select(d, kq2)}))
					w := vc.fresh("witness", keySort(mt.Key()))
					vc.fact(Imp(Ge(sz, One), Select(d, w)))
					w1, w2 := vc.fresh("witness", keySort(mt.Key())), vc.fresh("witness", keySort(mt.Key()))
					vc.fact(Imp(Ge(sz, IntT(2)), And(Select(d, w1), Select(d, w2), Ne(w1, w2))))
				}
				return scalar(intT, sz)
			case *types.Basic:
				return scalar(intT, mk(SInt, "str.len", v.one()))
			}
			return e.fail("len of %s", v.T)
		case "cap":
			v := e.eval(n.Args[0], cur, old)
			return scalar(intT, v.cap_())
		case "arr":
			v := e.eval(n.Args[0], cur, old)
			return scalar(types.Typ[types.UnsafePointer], v.arr())
		case "ref":
			v := e.eval(n.Args[0], cur, old)
			return scalar(types.Typ[types.UnsafePointer], v.L[0])
		case "fresh":
			v := e.eval(n.Args[0], cur, old)
			return scalar(boolT, Ge(v.L[0], e.freshBase()))
		case "rootfresh":
			// allocated since the root function under verification was entered
			v := e.eval(n.Args[0], cur, old)
			return scalar(boolT, Ge(v.L[0], vc.A0))
		case "as":
			// as(x, *T): the payload of interface value x viewed as a *T (meaningful under typeis(x, *T))
			v := e.eval(n.Args[0], cur, old)
			u, ok := n.Args[1].(*EUn)
			if !ok || u.Op != "*" || len(v.L) != 2 {
				return e.fail("as(interface value, *Type)")
			}
			t := e.resolveType(exprText(u.X))
			if t == nil {
				return e.fail("as: unknown type %s", exprText(u.X))
			}
			return scalar(types.NewPointer(t), v.L[1])
		case "typeis":
			v := e.eval(n.Args[0], cur, old)
			tn := exprText(n.Args[1])
			star := false
			if u, ok := n.Args[1].(*EUn); ok && u.Op == "*" {
				star = true
				tn = exprText(u.X)
			}
			t := e.resolveType(tn)
			if t == nil || len(v.L) != 2 {
				return e.fail("typeis(interface value, Type)")
			}
			if star {
				t = types.NewPointer(t)
			}
			return scalar(boolT, Eq(v.L[0], vc.typeTag(t)))
		case "freshOrNil":
			v := e.eval(n.Args[0], cur, old)
			return scalar(boolT, Or(Eq(v.L[0], Zero), Ge(v.L[0], e.freshBase())))
		case "allocated":
			// allocated(x): x was allocated before the state the clause is evaluated in
			v := e.eval(n.Args[0], cur, old)
			return scalar(boolT, Lt(v.L[0], cur.alloc))
		case "preexisting":
			v := e.eval(n.Args[0], cur, old)
			return scalar(boolT, And(Gt(v.L[0], Zero), Lt(v.L[0], e.freshBase())))
		case "elems", "elemsn":
			v := e.eval(n.Args[0], cur, old)
			if _, ok := v.T.Underlying().(*types.Slice); !ok {
				return e.fail("%s of non-slice", id.Name)
			}
			cnt := v.len()
			if id.Name == "elemsn" {
				cnt = e.eval(n.Args[1], cur, old).one()
			}
			t, es, ok := e.f.elemSet(cur, v, cnt)
			if !ok {
				return e.fail("elems: element type of %s has no set view", v.T)
			}
			return Val{Set: es, T: elemOf(v.T), L: []Term{t}}
		case "fieldset", "fieldsetn":
			v := e.eval(n.Args[0], cur, old)
			fid, ok := n.Args[1].(*EIdent)
			if _, isSl := v.T.Underlying().(*types.Slice); !isSl || !ok {
				return e.fail("fieldset(slice, Field)")
			}
			cnt := v.len()
			if id.Name == "fieldsetn" {
				cnt = e.eval(n.Args[2], cur, old).one()
			}
			t, fs, ok := e.f.fieldSet(cur, v, fid.Name, cnt)
			if !ok {
				return e.fail("fieldset: no scalar field %s on elements of %s", fid.Name, v.T)
			}
			return Val{Set: fs, T: types.Typ[types.Bool], L: []Term{t}}
		case "imageset", "imagesetn":
			v := e.eval(n.Args[0], cur, old)
			mid, ok := n.Args[1].(*EIdent)
			if _, isSl := v.T.Underlying().(*types.Slice); !isSl || !ok {
				return e.fail("imageset(slice, method)")
			}
			cnt := v.len()
			if id.Name == "imagesetn" {
				cnt = e.eval(n.Args[2], cur, old).one()
			}
			t, rs, ok := e.f.imageSet(cur, v, mid.Name, cnt)
			if !ok {
				return e.fail("imageset: %s is not a pure method of the elements of %s", mid.Name, v.T)
			}
			return Val{Set: rs, T: types.Typ[types.Bool], L: []Term{t}}
		case "sameElems", "rebuildsElems", "sameImages", "rebuildsImages":
			// set-level comparisons of slices (element sets, or image sets under a pure method)
			img := strings.HasSuffix(id.Name, "Images")
			nsl := 2
			if strings.HasPrefix(id.Name, "rebuilds") {
				nsl = 4
			}
			if len(n.Args) != nsl+map[bool]int{true: 1, false: 0}[img] {
				return e.fail("%s: wrong number of arguments", id.Name)
			}
			var sets []Term
			var es *Sort
			for i := 0; i < nsl; i++ {
				v := e.eval(n.Args[i], cur, old)
				if _, ok := v.T.Underlying().(*types.Slice); !ok {
					return e.fail("%s: argument %d is not a slice", id.Name, i)
				}
				var t Term
				var s *Sort
				var ok bool
				if img {
					mid, isId := n.Args[nsl].(*EIdent)
					if !isId {
						return e.fail("%s: method name expected", id.Name)
					}
					t, s, ok = e.f.imageSet(cur, v, mid.Name, v.len())
				} else {
					t, s, ok = e.f.elemSet(cur, v, v.len())
				}
				if !ok {
					return e.fail("%s: no set view for %s", id.Name, v.T)
				}
				sets = append(sets, t)
				es = s
			}
			x := Term{sym(fmt.Sprintf("x!s%d", e.qn+1)), es}
			in := func(i int) Term { return Select(sets[i], x) }
			var body Term
			if nsl == 2 {
				body = Eq(in(0), in(1))
			} else {
				// (n, added, removed, n2): n2 == (n \ removed) + added
				body = Eq(in(3), Or(And(in(0), Not(in(2))), in(1)))
			}
			var pats [][]Term
			for i := range sets {
				pats = append(pats, []Term{in(i)})
			}
			return scalar(boolT, Forall([]Term{x}, body, pats...))
		case "sameMap", "rebuildsMap":
			nm := 2
			if id.Name == "rebuildsMap" {
				nm = 4
			}
			if len(n.Args) != nm {
				return e.fail("%s: wrong number of arguments", id.Name)
			}
			var ms []Val
			for i := 0; i < nm; i++ {
				v := e.eval(n.Args[i], cur, old)
				if _, ok := v.T.Underlying().(*types.Map); !ok {
					return e.fail("%s: argument %d is not a map", id.Name, i)
				}
				ms = append(ms, v)
			}
			mt := ms[0].T.Underlying().(*types.Map)
			dom, _, vals := e.f.mapComps(ms[0].T)
			k := Term{sym(fmt.Sprintf("k!s%d", e.qn+1)), keySort(mt.Key())}
			in := func(i int) Term { return Select(Select(vc.get(cur, dom), ms[i].one()), k) }
			val := func(i int) Term { return Select(Select(vc.get(cur, vals[0]), ms[i].one()), k) }
			if len(vals) != 1 {
				return e.fail("%s: map values must be scalar", id.Name)
			}
			var body Term
			if nm == 2 {
				body = And(Eq(in(0), in(1)), Imp(in(0), Eq(val(0), val(1))))
			} else {
				// (n, added, removed, n2)
				body = And(Eq(in(3), Or(And(in(0), Not(in(2))), in(1))), Imp(in(3), Eq(val(3), Ite(in(1), val(1), val(0)))))
			}
			var pats [][]Term
			for i := range ms {
				pats = append(pats, []Term{in(i)})
			}
			return scalar(boolT, Forall([]Term{k}, body, pats...))
		case "keys":
			v := e.eval(n.Args[0], cur, old)
			mt, ok := v.T.Underlying().(*types.Map)
			if !ok {
				return e.fail("keys of non-map")
			}
			dom, _, _ := e.f.mapComps(v.T)
			return Val{Set: keySort(mt.Key()), T: mt.Key(), L: []Term{Select(vc.get(cur, dom), v.one())}}
		case "proj":
			v := e.eval(n.Args[0], cur, old)
			tt, ok := v.T.(*types.Tuple)
			ix, ok2 := n.Args[1].(*EInt)
			if !ok || !ok2 || int(ix.V) >= tt.Len() {
				return e.fail("proj(tuple, index)")
			}
			lo, hi := tupleRange(tt, int(ix.V))
			return Val{T: tt.At(int(ix.V)).Type(), L: v.L[lo:hi]}
		case "streampos":
			v := e.eval(n.Args[0], cur, old)
			vc.registerComp("Pos", SArr(SInt, SInt))
			ref := v.L[0]
			if len(v.L) == 2 {
				ref = v.L[1]
			}
			return scalar(intT, Select(vc.get(cur, "Pos"), ref))
		case "hashkey", "hashkeyalgo", "hashkeyval":
			// hashkey(a, v): fmt.Sprintf("%d:%s", a, v) (the trusted injective model of
			// that format); hashkeyalgo(k) / hashkeyval(k): its two inverses
			name := "sprintf|%d:%s"
			fn := vc.declareFun(name, []*Sort{SInt, SStr}, SStr)
			i0 := vc.declareFun(name+"|inv0", []*Sort{SStr}, SInt)
			i1 := vc.declareFun(name+"|inv1", []*Sort{SStr}, SStr)
			if !vc.declared["hashkey|axiom"] {
				vc.declared["hashkey|axiom"] = true
				qa, qv := Term{"a!q", SInt}, Term{"v!q", SStr}
				app := mk(SStr, fn, qa, qv)
				vc.fact(Forall([]Term{qa, qv}, And(Eq(mk(SInt, i0, app), qa), Eq(mk(SStr, i1, app), qv)), []Term{app}))
			}
			if id.Name == "hashkey" {
				a := e.eval(n.Args[0], cur, old)
				b := e.eval(n.Args[1], cur, old)
				return scalar(types.Typ[types.String], mk(SStr, fn, a.one(), b.one()))
			}
			k := e.eval(n.Args[0], cur, old)
			if id.Name == "hashkeyalgo" {
				return scalar(types.Typ[types.Int32], mk(SInt, i0, k.one()))
			}
			return scalar(types.Typ[types.String], mk(SStr, i1, k.one()))
		case "idowner":
			// idowner(x, s): an uninterpreted ghost function (reference, string) -> reference. A
			// precondition "forall p in elems(x.Nodes) :: idowner(x, p.Id) == p" states that
			// identifiers identify the entries of x (it has a model exactly when they do) and
			// instantiates linearly, unlike the pairwise form.
			a := e.eval(n.Args[0], cur, old)
			b := e.eval(n.Args[1], cur, old)
			fn := vc.declareFun("ghost.idowner", []*Sort{SInt, SStr}, SInt)
			t := e.resolveType("sbom.Node")
			if t == nil {
				return e.fail("idowner: type sbom.Node not found")
			}
			return scalar(types.NewPointer(t), mk(SInt, fn, a.L[0], b.one()))
		case "pathjoin":
			// pathjoin(dir, name): filepath.Join(dir, name) (the trusted two-argument model)
			a := e.eval(n.Args[0], cur, old)
			b := e.eval(n.Args[1], cur, old)
			jn := vc.declareFun("fs.join", []*Sort{SStr, SStr}, SStr)
			return scalar(types.Typ[types.String], mk(SStr, jn, a.one(), b.one()))
		case "spdxdoc":
			// spdxdoc(r): the document spdxjson.Read decodes from stream r (ghost; trusted Read contract)
			v := e.eval(n.Args[0], cur, old)
			ref := v.L[0]
			if len(v.L) == 2 {
				ref = v.L[1]
			}
			t := e.resolveType("v2_3.Document")
			if t == nil {
				return e.fail("spdxdoc: type v2_3.Document not found")
			}
			return scalar(types.NewPointer(t), mk(SInt, vc.declareFun("spdx.docOf", []*Sort{SInt}, SInt), ref))
		case "seekfailed", "jsonok", "jsonmember":
			v := e.eval(n.Args[0], cur, old)
			ref := v.L[0]
			if len(v.L) == 2 {
				ref = v.L[1]
			}
			switch id.Name {
			case "seekfailed":
				vc.registerComp("SeekFail", SArr(SInt, SInt))
				return scalar(boolT, Ne(Select(vc.get(cur, "SeekFail"), ref), Zero))
			case "jsonok":
				return scalar(boolT, mk(SBool, vc.declareFun("json.ok", []*Sort{SInt}, SBool), ref))
			}
			tag := e.eval(n.Args[1], cur, old)
			return scalar(types.Typ[types.String], mk(SStr, vc.declareFun("json.member", []*Sort{SInt, SStr}, SStr), ref, tag.one()))
		case "hasPrefix":
			a := e.eval(n.Args[0], cur, old)
			b := e.eval(n.Args[1], cur, old)
			return scalar(boolT, mk(SBool, "str.prefixof", b.one(), a.one()))
		case "contains":
			a := e.eval(n.Args[0], cur, old)
			b := e.eval(n.Args[1], cur, old)
			return scalar(boolT, mk(SBool, "str.contains", a.one(), b.one()))
		case "sameStruct":
			// field-wise equality of the structs two pointers address, in (cur, old)
			a := e.eval(n.Args[0], cur, old)
			b := e.eval(n.Args[1], cur, old)
			la := vc.load(cur, e.f.ptrLoc(a))
			st := cur
			if len(n.Args) > 2 {
				st = old
			}
			lb := vc.load(st, e.f.ptrLoc(b))
			return scalar(boolT, valEq(la, lb))
		}
		// predicate?
		if pkg := e.scopePkg(); pkg != nil {
			if p := vc.eng.specs.preds[pkg.Name()+"."+id.Name]; p != nil {
				return e.predCall(p, n.Args, cur, old)
			}
		}
		// Go function in the package
		if pkg := e.scopePkg(); pkg != nil {
			if fn := vc.eng.lookupFunc(pkg.Name(), id.Name); fn != nil {
				return e.goCall(fn, n.Args, cur, old)
			}
		}
		return e.fail("unknown function %s", id.Name)
	}
	if fe, ok := n.Fun.(*EField); ok {
		if id, ok := fe.X.(*EIdent); ok {
			// Type.Method(recv, args) or pkg.Func(args) or pkg.pred(args)
			if pkg := e.scopePkg(); pkg != nil {
				if fn := vc.eng.lookupFunc(pkg.Name(), id.Name+"."+fe.Name); fn != nil {
					return e.goCall(fn, n.Args, cur, old)
				}
			}
			if p := vc.eng.specs.preds[id.Name+"."+fe.Name]; p != nil {
				return e.predCall(p, n.Args, cur, old)
			}
			if fn := vc.eng.lookupFunc(id.Name, fe.Name); fn != nil {
				return e.goCall(fn, n.Args, cur, old)
			}
		}
		// pkg.Type.Method(recv,...)
		if fe2, ok := fe.X.(*EField); ok {
			if id, ok := fe2.X.(*EIdent); ok {
				if fn := vc.eng.lookupFunc(id.Name, fe2.Name+"."+fe.Name); fn != nil {
					return e.goCall(fn, n.Args, cur, old)
				}
			}
		}
	}
	return e.fail("unsupported call expression")
}

func (e *SpecEnv) freshBase() Term {
	if e.pre != nil {
		return e.pre.alloc
	}
	return e.f.vc.A0
}

func (e *SpecEnv) predCall(p *PredSpec, args []Expr, cur, old *State) Val {
	if len(args) != len(p.Params) {
		return e.fail("predicate %s expects %d arguments", p.Name, len(p.Params))
	}
	sub := &SpecEnv{f: e.f, fn: e.fn, spec: e.spec, pkg: e.f.vc.eng.typesPkgByName(p.Pkg), params: map[string]Val{}, pre: e.pre, qn: e.qn}
	for i, b := range p.Params {
		v := e.eval(args[i], cur, old)
		if t := sub.resolveType(b.Type); t != nil {
			if _, isNil := v.T.(*types.Basic); isNil && v.T.(*types.Basic).Kind() == types.UntypedNil {
				v = zeroVal(t)
			}
		}
		sub.params[b.Name] = v
	}
	out := sub.eval(p.Body, cur, old)
	return out
}

// goCall evaluates a call of real Go code inside a contract by symbolic
// execution of its body (transparent function). State changes are discarded.
func (e *SpecEnv) goCall(fn *ssa.Function, args []Expr, cur, old *State) Val {
	vc := e.f.vc
	var vals []Val
	for i, a := range args {
		v := e.eval(a, cur, old)
		if i < len(fn.Params) {
			if bb, ok := v.T.(*types.Basic); ok && bb.Kind() == types.UntypedNil {
				v = zeroVal(fn.Params[i].Type())
			} else {
				v.T = fn.Params[i].Type()
			}
		}
		vals = append(vals, v)
	}
	if len(vals) != len(fn.Params) {
		return e.fail("call of %s with %d arguments, want %d", fn.Name(), len(vals), len(fn.Params))
	}
	if ext := vc.eng.extFor(fn); ext != nil {
		vc.usedExt[fn.String()] = true
		var rt types.Type = fn.Signature.Results()
		if fn.Signature.Results().Len() == 1 {
			rt = fn.Signature.Results().At(0).Type()
		}
		st := cur.clone()
		return ext.apply(e.f, st, nil, vals, rt, 0)
	}
	if spec := vc.eng.specs.funcSpec(fn); spec != nil && spec.Pure {
		return ufResult(e.f, fmt.Sprintf("pure|%s|%d", fnDisplayName(fn), 0), vals, fn.Signature.Results().At(0).Type())
	}
	if e.f.depth >= maxInlineDepth {
		return e.fail("spec call depth exceeded")
	}
	shadow := false
	if spec := vc.eng.specs.funcSpec(fn); spec != nil && spec.Shadow && stateIndependent(fn) {
		shadow = true
		bound := false
		for _, v := range vals {
			if vc.hasBound(v.L...) {
				bound = true
			}
		}
		if bound {
			// under a quantifier: the shadow function (defined at every inlined call)
			return ufResult(e.f, fmt.Sprintf("pure|%s|%d", fnDisplayName(fn), 0), shadowArgs(fn, vals), fn.Signature.Results().At(0).Type())
		}
	}
	if len(e.bound) > 0 && !shadow {
		return e.fail("call of Go function %s under a quantifier is not supported (use a lemma with leading forall)", fn.Name())
	}
	vc.noSafe++
	saved := vc.classes
	vc.classes = map[string]bool{"__none__": true}
	st := cur.clone()
	st.reach = True
	sub := &Frame{vc: vc, fn: fn, fname: fnDisplayName(fn), depth: e.f.depth + 1, parent: e.f}
	res, _ := sub.run(st, vals, nil)
	vc.classes = saved
	vc.noSafe--
	vc.inlined[fnDisplayName(fn)+" (in contract)"] = true
	if shadow && len(res) == 1 && len(res[0].L) == 1 {
		u := ufResult(e.f, fmt.Sprintf("pure|%s|%d", fnDisplayName(fn), 0), shadowArgs(fn, vals), res[0].T)
		vc.fact(Eq(u.one(), res[0].one()))
	}
	if len(res) == 0 {
		return e.fail("call of %s has no result", fn.Name())
	}
	if len(res) == 1 {
		return res[0]
	}
	out := Val{T: fn.Signature.Results()}
	for _, r := range res {
		out.L = append(out.L, r.L...)
	}
	return out
}

// assignTargets evaluates an assigns clause in the given pre-state.
func (e *SpecEnv) assignTargets(spec *FuncSpec, pre *State) []*AssignTarget {
	var out []*AssignTarget
	for _, a := range spec.Assigns {
		t := e.assignTarget(a, pre)
		if t != nil {
			out = append(out, t)
		}
	}
	return out
}

func (e *SpecEnv) assignTarget(a *SpecClause, pre *State) *AssignTarget {
	x := a.Expr
	// global pkg.name  (written "global(name)")
	if c, ok := x.(*ECall); ok {
		if id, ok := c.Fun.(*EIdent); ok && id.Name == "global" && len(c.Args) == 1 {
			name := exprText(c.Args[0])
			if !strings.Contains(name, ".") {
				name = e.scopePkg().Name() + "." + name
			}
			return &AssignTarget{Text: a.Text, Glob: "G|" + name}
		}
	}
	if c, ok := x.(*ECall); ok {
		if id, ok := c.Fun.(*EIdent); ok && id.Name == "anyelems" && len(c.Args) == 1 {
			// the elements of every slice of the given element type
			t := e.resolveType(exprText(c.Args[0]))
			if t == nil {
				e.fail("assigns %s: unknown type", a.Text)
				return nil
			}
			return &AssignTarget{Text: a.Text, Base: Zero, Root: "E|" + typeKey(t), Any: true}
		}
	}
	if s, ok := x.(*EStar); ok {
		if ix, ok := s.X.(*EIndex); ok && ix.I == nil {
			// elements of slice / entries of map
			v := e.eval(ix.X, pre, nil)
			switch u := v.T.Underlying().(type) {
			case *types.Slice:
				return &AssignTarget{Text: a.Text, Base: v.arr(), Root: "E|" + typeKey(u.Elem())}
			case *types.Map:
				return &AssignTarget{Text: a.Text, Base: v.one(), Root: "M|" + typeKey(v.T)}
			}
			e.fail("assigns %s: not a slice or map", a.Text)
			return nil
		}
		v := e.eval(s.X, pre, nil)
		if _, ok := v.T.Underlying().(*types.Pointer); !ok {
			e.fail("assigns %s: not a pointer", a.Text)
			return nil
		}
		loc := e.f.ptrLoc(v)
		return &AssignTarget{Text: a.Text, Base: loc.Base, Root: loc.Root, Path: loc.Path}
	}
	if fe, ok := x.(*EField); ok {
		v := e.eval(fe.X, pre, nil)
		if _, ok := v.T.Underlying().(*types.Pointer); !ok {
			e.fail("assigns %s: base is not a pointer", a.Text)
			return nil
		}
		loc := e.f.ptrLoc(v)
		return &AssignTarget{Text: a.Text, Base: loc.Base, Root: loc.Root, Path: loc.Path + "." + fe.Name}
	}
	e.fail("unsupported assigns target %s", a.Text)
	return nil
}

func exprText(x Expr) string {
	switch n := x.(type) {
	case *EIdent:
		return n.Name
	case *EField:
		return exprText(n.X) + "." + n.Name
	}
	return "?"
}
