package main

func cmdSelftest(args []string) int { return 2 }
func cmdReplay(args []string) int   { return 2 }

// replayObligation writes the replay file of a failed obligation and tries to
// reproduce it on the real code; confirmed reports whether that succeeded.
func replayObligation(eng *Engine, vc *VC, o *Obl, prop, dir, repo string) (string, bool) {
	return writeReplay(dir, prop, o, nil), false
}
