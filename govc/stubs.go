package main

import (
	"encoding/json"
	"flag"
	"fmt"
	"os"
	"os/exec"
	"path/filepath"
	"regexp"
	"strings"
)

func cmdSelftest(args []string) int {
	fmt.Fprintln(os.Stderr, "selftest: use tools/run_seed.sh over /verif/seeded (seeded changes are the must-fail corpus)")
	return 2
}

var classRe = regexp.MustCompile(`/(SAFE|PRE|INV|POST|FRAME|OWN|LOCK|TRACE|TABLE|LEMMA|TERM|BIND|VACUITY|READS)#?`)

// cmdReplay re-decides the single obligation named in a replay file against
// the current working tree of /repo: exit 1 (with a VIOLATION line) when it is
// still undischarged, 0 when it is discharged now.  When the known-findings
// file lists a witness test for the obligation, the test is run against the
// real code as well (go test -overlay; nothing is written to /repo).
func cmdReplay(args []string) int {
	fs := flag.NewFlagSet("replay", flag.ExitOnError)
	repo := fs.String("repo", "/repo", "")
	verif := fs.String("verif", "/verif", "")
	contracts := fs.String("contracts", "/verif/contracts", "")
	timeout := fs.Int("timeout", 20, "")
	fs.Parse(args)
	if fs.NArg() != 1 {
		fmt.Fprintln(os.Stderr, "usage: govc replay <replay file>")
		return 2
	}
	data, err := os.ReadFile(fs.Arg(0))
	if err != nil {
		fmt.Fprintln(os.Stderr, err)
		return 2
	}
	var rp struct {
		Property   string `json:"property"`
		Obligation string `json:"obligation"`
		Class      string `json:"class"`
	}
	if err := json.Unmarshal(data, &rp); err != nil || rp.Obligation == "" {
		fmt.Fprintln(os.Stderr, "not a replay file")
		return 2
	}
	loc := classRe.FindStringIndex(rp.Obligation)
	if loc == nil {
		fmt.Fprintln(os.Stderr, "replay file names no obligation class:", rp.Obligation)
		return 2
	}
	owner := rp.Obligation[:loc[0]]
	root := owner
	if i := strings.Index(root, ">"); i >= 0 {
		root = root[:i]
	}
	if pd, ok := propDefs[rp.Property]; ok {
		skipLabels = pd.Skip
		curProp = rp.Property
	}
	eng := mustEngine(*repo, *contracts, nil)
	classes := map[string]bool{rp.Class: true, "CAND": true}
	var vcs []*VC
	for _, l := range eng.specs.lemmas {
		if l.Name == root {
			vcs = append(vcs, eng.verifyLemma(l))
		}
	}
	if len(vcs) == 0 {
		for _, fn := range eng.funcs {
			if fn.Blocks != nil && fnDisplayName(fn) == root {
				vcs = append(vcs, eng.verifyFunc(fn, classes))
				break
			}
		}
	}
	if len(vcs) == 0 {
		fmt.Printf("VIOLATION property=%s replay=%s no-failing-input-found\n", rp.Property, fs.Arg(0))
		fmt.Println("the function or lemma the obligation belongs to no longer exists:", root)
		return 1
	}
	dir, _ := os.MkdirTemp("", "govc-replay-")
	defer os.RemoveAll(dir)
	solveAll(vcs, SolveOpts{TimeoutS: *timeout, Dir: dir}, newStats())
	found := false
	failed := false
	witnessed := false
	for _, vc := range vcs {
		for _, o := range vc.obls {
			if o.Name != rp.Obligation {
				continue
			}
			found = true
			fmt.Printf("obligation %s: %s (%s, %d ms)\n", o.Name, o.Status, o.Backend, o.Ms)
			if !o.discharged() {
				failed = true
			}
		}
	}
	// witness test recorded for this obligation, if any
	for _, f := range loadFindings(filepath.Join(*verif, "known_findings.json")) {
		if f.Obligation != rp.Obligation || f.Witness == "" {
			continue
		}
		parts := strings.Fields(f.Witness)
		if len(parts) < 2 {
			continue
		}
		test := filepath.Join(*verif, parts[0])
		src, err := os.ReadFile(test)
		if err != nil {
			continue
		}
		pkgDir := witnessPkgDir(string(src), parts[0])
		cmd := exec.Command(filepath.Join(*verif, "tools", "overlaytest.sh"), pkgDir, test, "-run", strings.TrimSuffix(strings.Join(parts[1:], "|"), ","))
		cmd.Env = append(os.Environ(), "REPO="+*repo)
		out, err := cmd.CombinedOutput()
		verdict := "passes (the defect is not present in the working tree)"
		if err != nil {
			verdict = "FAILS on the real code"
			failed = true
			witnessed = true
		}
		fmt.Printf("witness %s: %s\n%s\n", f.Witness, verdict, truncate(string(out), 1500))
	}
	if !found && !failed {
		fmt.Println("the obligation is no longer generated (its contract clause or program point is gone)")
		fmt.Printf("VIOLATION property=%s replay=%s no-failing-input-found\n", rp.Property, fs.Arg(0))
		return 1
	}
	if failed && witnessed {
		fmt.Printf("VIOLATION property=%s replay=%s\n", rp.Property, fs.Arg(0))
		return 1
	}
	if failed {
		fmt.Printf("VIOLATION property=%s replay=%s no-failing-input-found\n", rp.Property, fs.Arg(0))
		return 1
	}
	return 0
}

// witnessPkgDir: the package directory a manual witness test belongs to (from
// its package clause).
func witnessPkgDir(src, path string) string {
	pkg := ""
	for _, l := range strings.Split(src, "\n") {
		if strings.HasPrefix(l, "package ") {
			pkg = strings.TrimSuffix(strings.TrimSpace(strings.TrimPrefix(l, "package ")), "_test")
			break
		}
	}
	switch pkg {
	case "sbom", "storage", "reader", "writer", "formats":
		return "pkg/" + pkg
	case "serializers", "unserializers":
		return "pkg/native/" + pkg
	}
	return "pkg/" + pkg
}

// replayObligation writes the replay file of a failed obligation.  The engine
// does not extract solver models into Go inputs, so confirmed is always false
// and the VIOLATION line ends in no-failing-input-found; `govc replay <file>`
// re-decides the obligation and runs the recorded witness test, if any.
func replayObligation(eng *Engine, vc *VC, o *Obl, prop, dir, repo string) (string, bool) {
	return writeReplay(dir, prop, o, nil), false
}
