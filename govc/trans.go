package main

import (
	"fmt"
	"go/constant"
	"go/token"
	"go/types"
	"sort"
	"strings"

	"golang.org/x/tools/go/ssa"
)

// Frame is one function activation under translation (root or inlined).
type Frame struct {
	vc      *VC
	fn      *ssa.Function
	fname   string
	vals    map[ssa.Value]Val
	depth   int
	root    bool
	spec    *FuncSpec
	params  []Val
	entry   *State // pre-state (for old())
	edges   map[[2]int]*State
	loops   map[*ssa.BasicBlock]*Loop
	rets    []retInfo
	defers  []*ssa.Defer
	stack   []string
	parent  *Frame
	nLoops  int
	mode    string // "", "pure"
	results []Val
	// root contract
	assignTargets []*AssignTarget
	hasAssigns    bool
	owns          bool
	inOnce        bool
	resKinds      map[string]bool
	parKinds      map[string]bool
	names         map[string][]nameRef
}

type retInfo struct {
	st   *State
	vals []Val
	pos  token.Pos
}

// Loop describes one natural loop.
type Loop struct {
	header  *ssa.BasicBlock
	blocks  map[*ssa.BasicBlock]bool
	backs   []*ssa.BasicBlock
	ordinal int
	mods    map[string]bool
	modAll  bool
	phis    []*ssa.Phi
	pre     *State
	prePhi  map[*ssa.Phi]Val
	hdr     *State
	hdrPhi  map[*ssa.Phi]Val
	cands   []*Cand
	userInv []*SpecClause
	modset  *ModSet
}

// Cand is a Houdini candidate invariant.
type Cand struct {
	parent string // group candidate this one refines ("" = top level)
	id     string
	enable Term
	eval   func(st *State, phi map[*ssa.Phi]Val) Term
}

func fnDisplayName(fn *ssa.Function) string {
	s := fn.String()
	s = strings.ReplaceAll(s, "github.com/protobom/protobom/pkg/", "")
	return s
}

func (f *Frame) unsupported(format string, a ...any) {
	f.vc.unsupported(f.fname+": "+format, a...)
}

// oblName prefixes obligations of inlined frames with the call chain.
func (f *Frame) oblFn() string {
	if f.parent == nil {
		return f.fname
	}
	return f.parent.oblFn() + ">" + shortFn(f.fname)
}

func shortFn(s string) string {
	if i := strings.LastIndex(s, "."); i >= 0 && !strings.HasSuffix(s, ")") {
		// keep receiver part
		if j := strings.LastIndex(s[:i], "("); j >= 0 {
			return s[j:]
		}
		return s[i+1:]
	}
	return s
}

func (f *Frame) oblige(st *State, class, detail string, pos token.Pos, goal Term) *Obl {
	return f.vc.oblige(st, class, f.oblFn(), detail, pos, goal)
}

// ---- control flow ----

func (f *Frame) findLoops() {
	f.loops = map[*ssa.BasicBlock]*Loop{}
	for _, b := range f.fn.Blocks {
		for _, s := range b.Succs {
			if s.Dominates(b) {
				l := f.loops[s]
				if l == nil {
					l = &Loop{header: s, blocks: map[*ssa.BasicBlock]bool{s: true}, mods: map[string]bool{}}
					f.loops[s] = l
				}
				l.backs = append(l.backs, b)
				// natural loop body
				stack := []*ssa.BasicBlock{b}
				for len(stack) > 0 {
					x := stack[len(stack)-1]
					stack = stack[:len(stack)-1]
					if l.blocks[x] {
						continue
					}
					l.blocks[x] = true
					stack = append(stack, x.Preds...)
				}
			}
		}
	}
	// ordinals by source position of header (block index is a stable proxy)
	var hs []*ssa.BasicBlock
	for h := range f.loops {
		hs = append(hs, h)
	}
	sort.Slice(hs, func(i, j int) bool { return hs[i].Index < hs[j].Index })
	for i, h := range hs {
		l := f.loops[h]
		l.ordinal = i
		for _, in := range h.Instrs {
			if p, ok := in.(*ssa.Phi); ok {
				l.phis = append(l.phis, p)
			}
		}
	}
}

func (f *Frame) isBackEdge(from, to *ssa.BasicBlock) bool {
	return to.Dominates(from)
}

// rpo returns blocks in reverse postorder ignoring back edges.
func (f *Frame) rpo() []*ssa.BasicBlock {
	seen := map[*ssa.BasicBlock]bool{}
	var post []*ssa.BasicBlock
	var dfs func(b *ssa.BasicBlock)
	dfs = func(b *ssa.BasicBlock) {
		seen[b] = true
		// successors in reverse order: loop bodies precede loop exits in the
		// resulting order (closer to source order, fewer irrelevant facts)
		for i := len(b.Succs) - 1; i >= 0; i-- {
			s := b.Succs[i]
			if f.isBackEdge(b, s) || seen[s] {
				continue
			}
			dfs(s)
		}
		post = append(post, b)
	}
	dfs(f.fn.Blocks[0])
	for i, j := 0, len(post)-1; i < j; i, j = i+1, j-1 {
		post[i], post[j] = post[j], post[i]
	}
	return post
}

// run translates the function body starting in state st with the given
// parameter values. It returns the merged result values and exit state.
func (f *Frame) run(st *State, params []Val, bindings []Val) ([]Val, *State) {
	vc := f.vc
	fn := f.fn
	if fn.Blocks == nil {
		f.unsupported("function has no body")
		return nil, st
	}
	f.vals = map[ssa.Value]Val{}
	f.edges = map[[2]int]*State{}
	f.params = params
	for i, p := range fn.Params {
		f.vals[p] = params[i]
	}
	for i, fv := range fn.FreeVars {
		f.vals[fv] = bindings[i]
	}
	f.entry = st.clone()
	f.findLoops()
	for _, l := range f.loops {
		f.loopMods(l)
		if f.spec != nil {
			for _, inv := range f.spec.Invariants {
				if strings.HasSuffix(inv.Label, "@root") && f.parent != nil {
					continue // an invariant that only the function's own postconditions need
				}
				if strings.HasSuffix(inv.Label, "@inlined") && f.parent == nil {
					continue // an invariant about the caller's context (established by the caller)
				}
				if inv.Loop == l.ordinal && !skipLabel(inv.Label) {
					l.userInv = append(l.userInv, inv)
				}
			}
		}
	}
	for _, b := range f.rpo() {
		var ins []*State
		var preds []*ssa.BasicBlock
		if b.Index == 0 {
			ins = []*State{st}
		} else {
			for _, p := range b.Preds {
				if f.isBackEdge(p, b) {
					continue
				}
				for j, s := range p.Succs {
					if s == b {
						if e := f.edges[[2]int{p.Index, j}]; e != nil {
							ins = append(ins, e)
							preds = append(preds, p)
						}
					}
				}
			}
		}
		if len(ins) == 0 {
			continue
		}
		cur := vc.join(ins)
		// phis
		phiVals := map[*ssa.Phi]Val{}
		for _, in := range b.Instrs {
			p, ok := in.(*ssa.Phi)
			if !ok {
				break
			}
			var rs []Term
			var vs []Val
			for k, s := range ins {
				idx := predIndex(b, preds[k])
				rs = append(rs, s.reach)
				vs = append(vs, f.val(p.Edges[idx]))
			}
			phiVals[p] = vc.joinVals(f.valName(p), rs, vs)
		}
		if l := f.loops[b]; l != nil {
			cur = f.enterLoop(l, cur, phiVals)
		} else {
			for p, v := range phiVals {
				f.vals[p] = v
			}
		}
		f.block(b, cur)
	}
	// merge returns
	if len(f.rets) == 0 {
		dead := st.clone()
		dead.reach = False
		var zs []Val
		res := fn.Signature.Results()
		for i := 0; i < res.Len(); i++ {
			zs = append(zs, zeroVal(res.At(i).Type()))
		}
		return zs, dead
	}
	var rstates []*State
	for _, r := range f.rets {
		rstates = append(rstates, r.st)
	}
	out := vc.join(rstates)
	var results []Val
	for i := 0; i < fn.Signature.Results().Len(); i++ {
		var rs []Term
		var vs []Val
		for _, r := range f.rets {
			rs = append(rs, r.st.reach)
			vs = append(vs, r.vals[i])
		}
		results = append(results, vc.joinVals("ret", rs, vs))
	}
	return results, out
}

func predIndex(b, p *ssa.BasicBlock) int {
	for i, x := range b.Preds {
		if x == p {
			return i
		}
	}
	panic("predIndex")
}

func (f *Frame) valName(v ssa.Value) string {
	n := v.Name()
	if p, ok := v.(*ssa.Phi); ok && p.Comment != "" {
		n = p.Comment + "_" + n
	}
	return fmt.Sprintf("d%d_%s", f.depth, n)
}

// block translates the instructions of b starting from state st.
func (f *Frame) block(b *ssa.BasicBlock, st *State) {
	for _, in := range b.Instrs {
		if _, ok := in.(*ssa.Phi); ok {
			continue
		}
		switch x := in.(type) {
		case *ssa.If:
			c := f.val(x.Cond).one()
			t := st.clone()
			t.reach = f.vc.reachConst(And(st.reach, c))
			e := st.clone()
			e.reach = f.vc.reachConst(And(st.reach, Not(c)))
			f.edge(b, 0, t)
			f.edge(b, 1, e)
			return
		case *ssa.Jump:
			f.edge(b, 0, st)
			return
		case *ssa.Return:
			var vs []Val
			for _, r := range x.Results {
				vs = append(vs, f.val(r))
			}
			f.onReturn(st, vs, x.Pos())
			f.rets = append(f.rets, retInfo{st: st, vals: vs, pos: x.Pos()})
			return
		case *ssa.Panic:
			f.oblige(st, "SAFE", "explicit panic", x.Pos(), False)
			return
		default:
			f.instr(in, st)
		}
	}
}

func (vc *VC) reachConst(t Term) Term {
	if t.S == "true" || t.S == "false" {
		return t
	}
	r := vc.fresh("R", SBool)
	vc.fact(Eq(r, t))
	return r
}

// edge records the state flowing along the j-th successor edge of b; a back
// edge instead checks the loop invariants.
func (f *Frame) edge(b *ssa.BasicBlock, j int, st *State) {
	to := b.Succs[j]
	if f.isBackEdge(b, to) {
		f.backEdge(f.loops[to], b, st)
		return
	}
	f.edges[[2]int{b.Index, j}] = st
}

// ---- values ----

func (f *Frame) val(v ssa.Value) Val {
	if x, ok := f.vals[v]; ok {
		return x
	}
	switch c := v.(type) {
	case *ssa.Const:
		return f.constVal(c)
	case *ssa.Global:
		name := c.Pkg.Pkg.Name() + "." + c.Name()
		t := deref(c.Type())
		return Val{T: c.Type(), L: []Term{IntT(-7)}, Loc: &Loc{Kind: LGlobal, Root: "G|" + name, T: t, Interior: true}}
	case *ssa.Function:
		return Val{T: c.Type(), L: []Term{f.vc.fnRef(c)}, Fn: c}
	case *ssa.Builtin:
		return Val{T: c.Type(), L: []Term{Zero}}
	}
	f.unsupported("use of undefined value %s (%T)", v.Name(), v)
	x := f.vc.freshVal("undef", v.Type())
	f.vals[v] = x
	return x
}

// fnRef gives every function a distinct non-nil reference.
func (vc *VC) fnRef(fn *ssa.Function) Term {
	name := "fn|" + fn.String()
	t := vc.declare(name, SInt)
	if !vc.declared["axiom:"+name] {
		vc.declared["axiom:"+name] = true
		vc.fact(Lt(t, IntT(-1000)))
	}
	return t
}

func (f *Frame) constVal(c *ssa.Const) Val {
	t := c.Type()
	if c.Value == nil {
		return zeroVal(t)
	}
	switch u := t.Underlying().(type) {
	case *types.Basic:
		switch {
		case u.Info()&types.IsBoolean != 0:
			return scalar(t, BoolT(constant.BoolVal(c.Value)))
		case u.Info()&types.IsString != 0:
			f.vc.lits[constant.StringVal(c.Value)] = true
			return scalar(t, StrT(constant.StringVal(c.Value)))
		case u.Info()&types.IsInteger != 0:
			if i, ok := constant.Int64Val(constant.ToInt(c.Value)); ok {
				return scalar(t, IntT(i))
			}
			if ui, ok := constant.Uint64Val(constant.ToInt(c.Value)); ok {
				return scalar(t, Term{fmt.Sprintf("%d", ui), SInt})
			}
		}
	}
	f.unsupported("constant %s of type %s", c, t)
	return f.vc.freshVal("const", t)
}

// ptrLoc returns the location a pointer value refers to.
func (f *Frame) ptrLoc(p Val) *Loc {
	if p.Loc != nil {
		return p.Loc
	}
	return objLoc(p.T, p.one())
}

// ---- instructions ----

func (f *Frame) instr(in ssa.Instruction, st *State) {
	vc := f.vc
	switch x := in.(type) {
	case *ssa.DebugRef:
		return
	case *ssa.Alloc:
		f.vals[x] = f.allocVal(st, x.Type(), x.Comment)
	case *ssa.FieldAddr:
		base := f.val(x.X)
		bl := f.ptrLoc(base)
		if base.Loc == nil {
			f.oblige(st, "SAFE", "nil dereference (field "+fieldName(deref(x.X.Type()), x.Field)+")", x.Pos(), Ne(base.one(), Zero))
		}
		_, _, fname := fieldRange(bl.T, x.Field)
		ft := bl.T.Underlying().(*types.Struct).Field(x.Field).Type()
		nl := &Loc{Kind: bl.Kind, Base: bl.Base, Idx: bl.Idx, Root: bl.Root, Path: bl.Path + fname, T: ft, Interior: true}
		f.vals[x] = Val{T: x.Type(), L: []Term{IntT(-7)}, Loc: nl}
	case *ssa.Field:
		sv := f.val(x.X)
		lo, hi, _ := fieldRange(sv.T, x.Field)
		ft := sv.T.Underlying().(*types.Struct).Field(x.Field).Type()
		f.vals[x] = Val{T: ft, L: sv.L[lo:hi]}
	case *ssa.IndexAddr:
		base := f.val(x.X)
		idx := f.val(x.Index).one()
		switch bt := x.X.Type().Underlying().(type) {
		case *types.Slice:
			f.oblige(st, "SAFE", "index out of range", x.Pos(), And(Le(Zero, idx), Lt(idx, base.len())))
			el := bt.Elem()
			f.vals[x] = Val{T: x.Type(), L: []Term{IntT(-7)}, Loc: &Loc{Kind: LElem, Base: base.arr(), Idx: idx, Root: "E|" + typeKey(el), T: el, Interior: true}}
		case *types.Pointer: // pointer to array
			at := bt.Elem().Underlying().(*types.Array)
			bl := f.ptrLoc(base)
			if bl.Kind != LArr {
				// an array that is not a local backing array (a package-level table, an
				// array field): the bounds obligation is exact; a read yields an
				// unconstrained element (over-approximation), a write is not modelled
				f.oblige(st, "SAFE", "index out of range", x.Pos(), And(Le(Zero, idx), Lt(idx, IntT(at.Len()))))
				readOnly := true
				if refs := x.Referrers(); refs != nil {
					for _, r := range *refs {
						switch u := r.(type) {
						case *ssa.UnOp:
							if u.Op != token.MUL {
								readOnly = false
							}
						case *ssa.DebugRef:
						default:
							readOnly = false
						}
					}
				}
				if !readOnly {
					f.unsupported("write through IndexAddr on a non-local array")
				}
				el := at.Elem()
				tmp := vc.alloc(st, "arrcell", "C|"+typeKey(el))
				tl := objLoc(x.Type(), tmp)
				v := vc.freshVal("arrelem", el)
				f.assumeWF(st, v)
				vc.store(st, tl, v)
				f.vals[x] = Val{T: x.Type(), L: []Term{tmp}}
				break
			}
			f.oblige(st, "SAFE", "index out of range", x.Pos(), And(Le(Zero, idx), Lt(idx, IntT(at.Len()))))
			el := at.Elem()
			f.vals[x] = Val{T: x.Type(), L: []Term{IntT(-7)}, Loc: &Loc{Kind: LElem, Base: bl.Base, Idx: idx, Root: "E|" + typeKey(el), T: el, Interior: true}}
		default:
			f.unsupported("IndexAddr on %s", x.X.Type())
			f.vals[x] = vc.freshVal("ia", x.Type())
		}
	case *ssa.Index:
		base := f.val(x.X)
		idx := f.val(x.Index).one()
		if b, ok := x.X.Type().Underlying().(*types.Basic); ok && b.Info()&types.IsString != 0 {
			f.oblige(st, "SAFE", "string index out of range", x.Pos(), And(Le(Zero, idx), Lt(idx, mk(SInt, "str.len", base.one()))))
			fnm := vc.declareFun("byteAt", []*Sort{SStr, SInt}, SInt)
			f.vals[x] = scalar(x.Type(), mk(SInt, fnm, base.one(), idx))
		} else {
			f.unsupported("Index on %s", x.X.Type())
			f.vals[x] = vc.freshVal("ix", x.Type())
		}
	case *ssa.UnOp:
		f.unop(x, st)
	case *ssa.BinOp:
		f.vals[x] = f.binop(x.Op, f.val(x.X), f.val(x.Y), x.Type(), x.X.Type())
	case *ssa.Store:
		p := f.val(x.Addr)
		v := f.val(x.Val)
		loc := f.ptrLoc(p)
		if p.Loc == nil {
			f.oblige(st, "SAFE", "nil dereference (store)", x.Pos(), Ne(p.one(), Zero))
		}
		f.storeChecked(st, loc, v, x.Pos(), "store")
	case *ssa.Phi:
	case *ssa.Extract:
		tv := f.val(x.Tuple)
		tt := x.Tuple.Type().(*types.Tuple)
		lo, hi := tupleRange(tt, x.Index)
		out := Val{T: tt.At(x.Index).Type(), L: tv.L[lo:hi]}
		if tv.Bnd != nil && x.Index < len(tv.Bnd) {
			// static annotations of tuple elements
			out.Loc, out.Fn = tv.Bnd[x.Index].Loc, tv.Bnd[x.Index].Fn
		}
		f.vals[x] = out
	case *ssa.MakeMap:
		r := vc.alloc(st, "map", "M|"+typeKey(x.Type()))
		f.initMap(st, x.Type(), r)
		f.vals[x] = scalar(x.Type(), r)
	case *ssa.MakeSlice:
		ln := f.val(x.Len).one()
		cp := f.val(x.Cap).one()
		f.oblige(st, "SAFE", "makeslice: len out of range", x.Pos(), And(Le(Zero, ln), Le(ln, cp)))
		r := vc.alloc(st, "arr", "E|"+typeKey(elemOf(x.Type())))
		f.zeroArray(st, elemOf(x.Type()), r)
		f.vals[x] = sliceVal(x.Type(), r, ln, cp)
	case *ssa.MakeInterface:
		f.vals[x] = f.makeIface(x.Type(), f.val(x.X), x.X.Type())
	case *ssa.MakeClosure:
		fn := x.Fn.(*ssa.Function)
		var b []Val
		for _, bv := range x.Bindings {
			b = append(b, f.val(bv))
		}
		r := vc.alloc(st, "closure", "fn")
		f.vals[x] = Val{T: x.Type(), L: []Term{r}, Fn: fn, Bnd: b}
	case *ssa.ChangeType:
		v := f.val(x.X)
		v.T = x.Type()
		f.vals[x] = v
	case *ssa.ChangeInterface:
		v := f.val(x.X)
		v.T = x.Type()
		f.vals[x] = v
	case *ssa.Convert:
		f.vals[x] = f.convert(st, x)
	case *ssa.TypeAssert:
		f.typeAssert(st, x)
	case *ssa.Lookup:
		f.lookup(st, x)
	case *ssa.MapUpdate:
		f.mapUpdate(st, x)
	case *ssa.Range:
		f.rangeInit(st, x)
	case *ssa.Next:
		f.next(st, x)
	case *ssa.Slice:
		f.sliceOp(st, x)
	case *ssa.Call:
		f.call(st, x, x.Common(), x.Pos())
	case *ssa.Defer:
		f.defers = append(f.defers, x)
		// evaluate arguments now
		for _, a := range x.Call.Args {
			f.val(a)
		}
		f.val(x.Call.Value)
	case *ssa.RunDefers:
		f.runDefers(st, x)
	case *ssa.Go, *ssa.Send, *ssa.Select:
		f.unsupported("concurrency instruction %T outside subset", in)
	default:
		f.unsupported("instruction %T not handled", in)
		if v, ok := in.(ssa.Value); ok {
			f.vals[v] = vc.freshVal("unk", v.Type())
		}
	}
}

func fieldName(t types.Type, i int) string {
	return t.Underlying().(*types.Struct).Field(i).Name()
}

// allocVal implements new(T) / &T{} / escaping locals.
func (f *Frame) allocVal(st *State, ptrT types.Type, hint string) Val {
	vc := f.vc
	el := deref(ptrT)
	if hint == "" {
		hint = "obj"
	}
	r := vc.alloc(st, sanitize(hint), kindOfPtr(ptrT))
	if at, ok := el.Underlying().(*types.Array); ok {
		f.zeroArray(st, at.Elem(), r)
		return Val{T: ptrT, L: []Term{r}, Loc: &Loc{Kind: LArr, Base: r, Root: "E|" + typeKey(at.Elem()), T: el}}
	}
	loc := objLoc(ptrT, r)
	vc.store(st, loc, zeroVal(el))
	return Val{T: ptrT, L: []Term{r}}
}

func sanitize(s string) string {
	var b strings.Builder
	for _, r := range s {
		if (r >= 'a' && r <= 'z') || (r >= 'A' && r <= 'Z') || (r >= '0' && r <= '9') {
			b.WriteRune(r)
		}
	}
	if b.Len() == 0 {
		return "x"
	}
	return b.String()
}

func (f *Frame) zeroArray(st *State, el types.Type, r Term) {
	vc := f.vc
	for _, lf := range layout(el) {
		name := compElem(el, lf.Suffix)
		noteRefComp(name, lf)
		vc.registerComp(name, SArr(SInt, SArr(SInt, lf.Sort)))
		c := vc.get(st, name)
		vc.set(st, name, Store(c, r, ConstArr(SArr(SInt, lf.Sort), zeroOf(lf.Sort))))
	}
}

// storeChecked writes v to loc and emits FRAME/OWN obligations.
func (f *Frame) storeChecked(st *State, loc *Loc, v Val, pos token.Pos, what string) {
	f.frameCheck(st, loc, pos, what)
	f.ownCheck(st, loc, v, pos, what)
	f.lockCheck(st, loc, true, pos)
	f.vc.store(st, loc, v)
}

func (f *Frame) unop(x *ssa.UnOp, st *State) {
	vc := f.vc
	switch x.Op {
	case token.MUL:
		p := f.val(x.X)
		loc := f.ptrLoc(p)
		if p.Loc == nil {
			f.oblige(st, "SAFE", "nil dereference (load)", x.Pos(), Ne(p.one(), Zero))
		}
		if loc.Kind == LArr {
			// load of a whole array value: opaque
			f.vals[x] = vc.freshVal("arrval", x.Type())
			return
		}
		f.lockCheck(st, loc, false, x.Pos())
		v := vc.load(st, loc)
		v = f.assumeWF(st, v)
		if loc.Kind == LGlobal {
			v.Glob = strings.TrimPrefix(loc.Root, "G|")
		}
		f.vals[x] = v
	case token.NOT:
		f.vals[x] = scalar(x.Type(), Not(f.val(x.X).one()))
	case token.SUB:
		f.vals[x] = scalar(x.Type(), mk(SInt, "-", f.val(x.X).one()))
	default:
		f.unsupported("unary operator %s", x.Op)
		f.vals[x] = vc.freshVal("un", x.Type())
	}
}

// assumeWF adds memory-model facts about a loaded value: slices are
// well-formed, references are within the allocator.
func (f *Frame) assumeWF(st *State, v Val) Val {
	vc := f.vc
	pos := 0
	vc.registerComp("Ty", SArr(SInt, SInt))
	kindIs := func(ref Term, kind string) Term {
		return Or(Eq(ref, Zero), Eq(Select(vc.get(st, "Ty"), ref), vc.kindTag(kind)))
	}
	var walk func(t types.Type)
	walk = func(t types.Type) {
		switch u := t.Underlying().(type) {
		case *types.Slice:
			arr, ln, cp := v.L[pos], v.L[pos+1], v.L[pos+2]
			vc.fact(Imp(st.reach, And(Le(Zero, ln), Le(ln, cp), Le(Zero, arr), Lt(arr, st.alloc), Imp(Eq(arr, Zero), Eq(cp, Zero)), kindIs(arr, "E|"+typeKey(u.Elem())))))
			pos += 3
		case *types.Struct:
			for i := 0; i < u.NumFields(); i++ {
				if isProtoInternalField(u.Field(i)) {
					continue
				}
				walk(u.Field(i).Type())
			}
		case *types.Tuple:
			for i := 0; i < u.Len(); i++ {
				walk(u.At(i).Type())
			}
		case *types.Pointer:
			vc.fact(Imp(st.reach, And(Le(Zero, v.L[pos]), Lt(v.L[pos], st.alloc), kindIs(v.L[pos], kindOfPtr(t)))))
			pos++
		case *types.Map:
			vc.fact(Imp(st.reach, And(Le(Zero, v.L[pos]), Lt(v.L[pos], st.alloc), kindIs(v.L[pos], "M|"+typeKey(t)))))
			pos++
		case *types.Interface:
			vc.fact(Imp(st.reach, And(Le(Zero, v.L[pos]), Lt(v.L[pos+1], st.alloc), Imp(Eq(v.L[pos], Zero), Eq(v.L[pos+1], Zero)))))
			pos += 2
		default:
			pos += len(layout(t))
		}
	}
	walk(v.T)
	return v
}

func isStringT(t types.Type) bool {
	b, ok := t.Underlying().(*types.Basic)
	return ok && b.Info()&types.IsString != 0
}

func (f *Frame) binop(op token.Token, a, b Val, rt, xt types.Type) Val {
	vc := f.vc
	switch op {
	case token.EQL, token.NEQ:
		var eq Term
		switch xt.Underlying().(type) {
		case *types.Slice:
			// only comparison with nil is legal
			if isNilConst(b) {
				eq = Eq(a.arr(), Zero)
			} else {
				eq = Eq(b.arr(), Zero)
			}
		case *types.Interface:
			eq = valEq(f.coerceIface(a, b), f.coerceIface(b, a))
		default:
			if len(a.L) != len(b.L) {
				// comparison with untyped nil
				if len(a.L) == 1 || len(b.L) == 1 {
					if len(a.L) > len(b.L) {
						eq = Eq(a.L[0], Zero)
					} else {
						eq = Eq(b.L[0], Zero)
					}
				} else {
					f.unsupported("comparison of %s and %s", a.T, b.T)
					eq = vc.fresh("cmp", SBool)
				}
			} else {
				eq = valEq(a, b)
			}
		}
		if op == token.NEQ {
			eq = Not(eq)
		}
		return scalar(rt, eq)
	}
	x, y := a.one(), b.one()
	if isStringT(xt) {
		switch op {
		case token.ADD:
			return scalar(rt, mk(SStr, "str.++", x, y))
		case token.LSS:
			return scalar(rt, mk(SBool, "str.<", x, y))
		case token.LEQ:
			return scalar(rt, mk(SBool, "str.<=", x, y))
		case token.GTR:
			return scalar(rt, mk(SBool, "str.<", y, x))
		case token.GEQ:
			return scalar(rt, mk(SBool, "str.<=", y, x))
		}
	}
	if x.Sort == SBool {
		f.unsupported("binary operator %s on bool", op)
		return vc.freshVal("bin", rt)
	}
	switch op {
	case token.ADD:
		return scalar(rt, Add(x, y))
	case token.SUB:
		return scalar(rt, Sub(x, y))
	case token.MUL:
		return scalar(rt, Mul(x, y))
	case token.LSS:
		return scalar(rt, Lt(x, y))
	case token.LEQ:
		return scalar(rt, Le(x, y))
	case token.GTR:
		return scalar(rt, Gt(x, y))
	case token.GEQ:
		return scalar(rt, Ge(x, y))
	case token.QUO:
		return scalar(rt, mk(SInt, "div", x, y))
	case token.REM:
		return scalar(rt, mk(SInt, "mod", x, y))
	}
	// bit operations: uninterpreted
	fnm := vc.declareFun("bitop_"+sanitize(op.String())+fmt.Sprint(int(op)), []*Sort{SInt, SInt}, SInt)
	return scalar(rt, mk(SInt, fnm, x, y))
}

func isNilConst(v Val) bool {
	for _, t := range v.L {
		if t.S != "0" {
			return false
		}
	}
	return true
}

func (f *Frame) coerceIface(a, other Val) Val {
	if len(a.L) == 2 {
		return a
	}
	// untyped nil compared with an interface
	return Val{T: other.T, L: []Term{Zero, Zero}}
}

// ---- interfaces ----

func (vc *VC) typeTag(t types.Type) Term {
	key := typeKey(t)
	id, ok := vc.eng.typeIDs[key]
	if !ok {
		id = int64(len(vc.eng.typeIDs) + 1)
		vc.eng.typeIDs[key] = id
		vc.eng.typeByID[id] = t
	}
	return IntT(id)
}

func (f *Frame) makeIface(it types.Type, v Val, vt types.Type) Val {
	vc := f.vc
	if _, ok := vt.Underlying().(*types.Interface); ok {
		v.T = it
		return v
	}
	tag := vc.typeTag(vt)
	var payload Term
	switch vt.Underlying().(type) {
	case *types.Pointer, *types.Map, *types.Signature:
		payload = v.one()
	default:
		// box: injective uninterpreted function per type and leaf
		lay := layout(vt)
		var sorts []*Sort
		for _, l := range lay {
			sorts = append(sorts, l.Sort)
		}
		bx := vc.declareFun("box|"+typeKey(vt), sorts, SInt)
		if len(lay) == 0 {
			payload = Term{bx, SInt}
		} else {
			payload = mk(SInt, bx, v.L...)
		}
		vc.fact(Lt(payload, IntT(-1)))
		for i, l := range lay {
			ub := vc.declareFun(fmt.Sprintf("unbox|%s|%d", typeKey(vt), i), []*Sort{SInt}, l.Sort)
			vc.fact(Eq(mk(l.Sort, ub, payload), v.L[i]))
		}
	}
	out := Val{T: it, L: []Term{tag, payload}}
	out.Fn = v.Fn
	return out
}

func (f *Frame) typeAssert(st *State, x *ssa.TypeAssert) {
	vc := f.vc
	iv := f.val(x.X)
	var ok Term
	var res Val
	if _, isIface := x.AssertedType.Underlying().(*types.Interface); isIface {
		// interface-to-interface: succeeds iff non-nil and dynamic type implements it.
		impl := vc.declareFun("implements|"+typeKey(x.AssertedType), []*Sort{SInt}, SBool)
		ok = And(Ne(iv.L[0], Zero), mk(SBool, impl, iv.L[0]))
		res = Val{T: x.AssertedType, L: []Term{iv.L[0], iv.L[1]}}
	} else {
		tag := vc.typeTag(x.AssertedType)
		ok = Eq(iv.L[0], tag)
		switch x.AssertedType.Underlying().(type) {
		case *types.Pointer, *types.Map, *types.Signature:
			res = scalar(x.AssertedType, iv.L[1])
		default:
			res = Val{T: x.AssertedType}
			for i, l := range layout(x.AssertedType) {
				ub := vc.declareFun(fmt.Sprintf("unbox|%s|%d", typeKey(x.AssertedType), i), []*Sort{SInt}, l.Sort)
				res.L = append(res.L, mk(l.Sort, ub, iv.L[1]))
			}
		}
	}
	if x.CommaOk {
		// result is zero when !ok
		out := Val{T: x.Type()}
		z := zeroVal(x.AssertedType)
		for i := range res.L {
			out.L = append(out.L, Ite(ok, res.L[i], z.L[i]))
		}
		out.L = append(out.L, ok)
		f.vals[x] = out
		return
	}
	f.oblige(st, "SAFE", "type assertion to "+typeKey(x.AssertedType), x.Pos(), ok)
	f.vals[x] = res
}

// ---- conversions ----

func (f *Frame) convert(st *State, x *ssa.Convert) Val {
	vc := f.vc
	v := f.val(x.X)
	from, to := x.X.Type().Underlying(), x.Type().Underlying()
	fb, fok := from.(*types.Basic)
	tb, tok := to.(*types.Basic)
	switch {
	case fok && tok && fb.Info()&types.IsInteger != 0 && tb.Info()&types.IsInteger != 0:
		return scalar(x.Type(), v.one())
	case fok && tok && fb.Info()&types.IsString != 0 && tb.Info()&types.IsString != 0:
		return scalar(x.Type(), v.one())
	case fok && tok && fb.Info()&types.IsInteger != 0 && tb.Info()&types.IsString != 0:
		fnm := vc.declareFun("runeToStr", []*Sort{SInt}, SStr)
		return scalar(x.Type(), mk(SStr, fnm, v.one()))
	case fok && fb.Info()&types.IsString != 0 && isByteSlice(to):
		r := vc.alloc(st, "bytes", "E|uint8")
		name := compElem(types.Typ[types.Uint8], "")
		vc.registerComp(name, SArr(SInt, SArr(SInt, SInt)))
		vc.set(st, name, Store(vc.get(st, name), r, vc.injApp("bytesOf", []Term{v.one()}, SArr(SInt, SInt))))
		ln := mk(SInt, "str.len", v.one())
		return sliceVal(x.Type(), r, ln, ln)
	case tok && tb.Info()&types.IsString != 0 && isByteSlice(from):
		name := compElem(types.Typ[types.Uint8], "")
		vc.registerComp(name, SArr(SInt, SArr(SInt, SInt)))
		fnm := vc.declareFun("strOfBytes", []*Sort{SArr(SInt, SInt), SInt}, SStr)
		return scalar(x.Type(), mk(SStr, fnm, Select(vc.get(st, name), v.arr()), v.len()))
	}
	f.unsupported("conversion %s -> %s", x.X.Type(), x.Type())
	return vc.freshVal("conv", x.Type())
}

func isByteSlice(t types.Type) bool {
	s, ok := t.(*types.Slice)
	if !ok {
		return false
	}
	b, ok := s.Elem().Underlying().(*types.Basic)
	return ok && b.Kind() == types.Uint8
}

// ---- slices ----

func (f *Frame) sliceOp(st *State, x *ssa.Slice) {
	vc := f.vc
	base := f.val(x.X)
	var lo, hi Term
	switch bt := x.X.Type().Underlying().(type) {
	case *types.Pointer: // *[N]T
		at := bt.Elem().Underlying().(*types.Array)
		bl := f.ptrLoc(base)
		n := IntT(at.Len())
		if x.Low != nil || x.High != nil || x.Max != nil {
			f.unsupported("partial slice of array")
		}
		f.vals[x] = sliceVal(x.Type(), bl.Base, n, n)
		// a slice literal: unfold the element-set view for its (small, constant)
		// length so that contracts quantifying over such slices see its members
		if at.Len() >= 1 && at.Len() <= 4 {
			el := elemOf(x.Type())
			if lay := layout(el); len(lay) == 1 && vc.declared[sym("ES|"+typeKey(el))] {
				for k := int64(1); k <= at.Len(); k++ {
					f.elemSet(st, f.vals[x], IntT(k))
				}
			}
		}
		return
	case *types.Slice:
		lo = Zero
		if x.Low != nil {
			lo = f.val(x.Low).one()
		}
		hi = base.len()
		if x.High != nil {
			hi = f.val(x.High).one()
		}
		if x.Max != nil {
			f.unsupported("3-index slice")
		}
		f.oblige(st, "SAFE", "slice bounds out of range", x.Pos(), And(Le(Zero, lo), Le(lo, hi), Le(hi, base.cap_())))
		if lo.S != "0" {
			f.unsupported("slice with non-zero low bound (offset slices outside subset)")
		}
		f.vals[x] = sliceVal(x.Type(), base.arr(), hi, base.cap_())
		return
	case *types.Basic: // string
		s := base.one()
		lo = Zero
		if x.Low != nil {
			lo = f.val(x.Low).one()
		}
		hi = mk(SInt, "str.len", s)
		if x.High != nil {
			hi = f.val(x.High).one()
		}
		f.oblige(st, "SAFE", "string slice bounds out of range", x.Pos(), And(Le(Zero, lo), Le(lo, hi), Le(hi, mk(SInt, "str.len", s))))
		f.vals[x] = scalar(x.Type(), mk(SStr, "str.substr", s, lo, Sub(hi, lo)))
		return
	}
	f.unsupported("slice of %s", x.X.Type())
	f.vals[x] = vc.freshVal("slice", x.Type())
}

// elemComps returns (name, sort) of the element components of element type el.
func (vc *VC) elemComps(el types.Type) []string {
	var out []string
	for _, lf := range layout(el) {
		name := compElem(el, lf.Suffix)
		noteRefComp(name, lf)
		vc.registerComp(name, SArr(SInt, SArr(SInt, lf.Sort)))
		out = append(out, name)
	}
	return out
}

// appendOp implements append(s, t...) where t is a slice value.
func (f *Frame) appendOp(st *State, x *ssa.Call, s, t Val) Val {
	vc := f.vc
	el := elemOf(s.T)
	comps := vc.elemComps(el)
	// string appended to []byte
	if isStringT(t.T) {
		f.unsupported("append(bytes, string...)")
		return vc.freshVal("app", s.T)
	}
	n := t.len()
	// Single-element fast path (varargs idiom) keeps the VC quantifier-free.
	single := n.S == "1"
	inPlace := Le(Add(s.len(), n), s.cap_())
	newLen := Add(s.len(), n)
	// in-place branch writes s.arr[len..len+n)
	f.frameAppend(st, s, n, inPlace, x.Pos())
	rNew := vc.alloc(st, "arr", "E|"+typeKey(el))
	f.zeroArray(st, el, rNew)
	newCap := vc.fresh("cap", SInt)
	vc.fact(Ge(newCap, newLen))
	resArr := vc.fresh("apparr", SInt)
	vc.fact(Imp(st.reach, Eq(resArr, Ite(inPlace, s.arr(), rNew))))
	// n == 0: Go returns s unchanged (same array, even nil)
	resCap := Ite(inPlace, s.cap_(), newCap)
	for _, name := range comps {
		c := vc.get(st, name)
		if !vc.freshRefs[s.arr().S] {
			st.markDirty(name)
		}
		inner := c.Sort.V
		src := Select(c, s.arr())
		var content Term
		if single {
			// in place: one element written; reallocated: prefix copied, the
			// new element, zero beyond (fresh arrays never expose old garbage)
			x0 := Select(Select(c, t.arr()), Zero)
			cnew := vc.fresh("appnew", inner)
			j := Term{"j!q", SInt}
			vc.fact(Forall([]Term{j}, Eq(Select(cnew, j), Ite(And(Le(Zero, j), Lt(j, s.len())), Select(src, j), Ite(Eq(j, s.len()), x0, zeroOf(inner.V)))), []Term{Select(cnew, j)}))
			content = Ite(inPlace, Store(src, s.len(), x0), cnew)
		} else {
			// content[j] = j < len(s) ? s[j] : t[j-len(s)] for j < newLen (quantified)
			content = vc.fresh("appcontent", inner)
			j := Term{"j!q", SInt}
			tsrc := Select(c, t.arr())
			body := And(
				Imp(And(Le(Zero, j), Lt(j, s.len())), Eq(Select(content, j), Select(src, j))),
				Imp(And(Le(s.len(), j), Lt(j, newLen)), Eq(Select(content, j), Select(tsrc, Sub(j, s.len())))),
				// in place: everything outside the appended window is unchanged
				Imp(And(inPlace, Or(Lt(j, s.len()), Ge(j, newLen))), Eq(Select(content, j), Select(src, j))))
			vc.fact(Forall([]Term{j}, body, []Term{Select(content, j)}))
		}
		vc.set(st, name, Store(c, resArr, content))
		if len(comps) == 1 {
			if single {
				x0 := Select(Select(c, t.arr()), Zero)
				f.appendSetFacts(st, el, src, s.len(), content, newLen, true, x0, Term{}, Term{})
				f.appendFieldSetFacts(st, el, src, s.len(), content, newLen, x0)
				f.appendImageSetFacts(st, el, src, s.len(), content, newLen, x0)
			} else {
				f.appendSetFacts(st, el, src, s.len(), content, newLen, false, Term{}, Select(c, t.arr()), n)
			}
		}
	}
	out := sliceVal(s.T, resArr, newLen, resCap)
	vc.fact(Imp(st.reach, And(Le(Zero, newLen), Le(newLen, resCap))))
	// OWN: elements stored into a fresh array
	f.ownAppend(st, out, s, t, x.Pos())
	return out
}

// ---- maps ----

func (f *Frame) mapComps(mt types.Type) (dom, size string, vals []string) {
	vc := f.vc
	m := mt.Underlying().(*types.Map)
	ks := keySort(m.Key())
	dom = compMapDom(mt)
	vc.registerComp(dom, SArr(SInt, SArr(ks, SBool)))
	size = compMapSize(mt)
	vc.registerComp(size, SArr(SInt, SInt))
	for _, lf := range layout(m.Elem()) {
		name := compMapVal(mt, lf.Suffix)
		noteRefComp(name, lf)
		vc.registerComp(name, SArr(SInt, SArr(ks, lf.Sort)))
		vals = append(vals, name)
	}
	return
}

func (f *Frame) initMap(st *State, mt types.Type, r Term) {
	vc := f.vc
	dom, size, vals := f.mapComps(mt)
	d := vc.get(st, dom)
	vc.set(st, dom, Store(d, r, ConstArr(d.Sort.V, False)))
	s := vc.get(st, size)
	vc.set(st, size, Store(s, r, Zero))
	m := mt.Underlying().(*types.Map)
	for i, lf := range layout(m.Elem()) {
		c := vc.get(st, vals[i])
		vc.set(st, vals[i], Store(c, r, ConstArr(c.Sort.V, zeroOf(lf.Sort))))
	}
}

// mapSizeFacts links the ghost size with the domain at a use site.
func (f *Frame) mapSizeFacts(st *State, mt types.Type, m Term, key *Term) {
	vc := f.vc
	dom, size, _ := f.mapComps(mt)
	d := Select(vc.get(st, dom), m)
	sz := Select(vc.get(st, size), m)
	vc.fact(Imp(st.reach, Ge(sz, Zero)))
	vc.fact(Imp(st.reach, Imp(Eq(m, Zero), Eq(sz, Zero))))
	if key != nil {
		vc.fact(Imp(st.reach, Imp(Select(d, *key), Ge(sz, One))))
		vc.fact(Imp(st.reach, Imp(Eq(m, Zero), Not(Select(d, *key)))))
	} else {
		w := vc.fresh("witness", d.Sort.K)
		vc.fact(Imp(st.reach, Imp(Ge(sz, One), Select(d, w))))
		w1, w2 := vc.fresh("witness", d.Sort.K), vc.fresh("witness", d.Sort.K)
		vc.fact(Imp(st.reach, Imp(Ge(sz, IntT(2)), And(Select(d, w1), Select(d, w2), Ne(w1, w2)))))
		// size and domain agree (memory-model truths): a key means size >= 1, two distinct keys size >= 2
		kq, kq2 := Term{"k!q", d.Sort.K}, Term{"k!q2", d.Sort.K}
		vc.fact(Imp(st.reach, Forall([]Term{kq}, Imp(Select(d, kq), Ge(sz, One)), []Term{Select(d, kq)})))
		vc.fact(Imp(st.reach, Forall([]Term{kq, kq2}, Imp(And(Select(d, kq), Select(d, kq2), Ne(kq, kq2)), Ge(sz, IntT(2))), []Term{Select(d, kq), Select(d, kq2)})))
	}
}

func (f *Frame) lookup(st *State, x *ssa.Lookup) {
	vc := f.vc
	if isStringT(x.X.Type()) {
		s := f.val(x.X).one()
		idx := f.val(x.Index).one()
		f.oblige(st, "SAFE", "string index out of range", x.Pos(), And(Le(Zero, idx), Lt(idx, mk(SInt, "str.len", s))))
		fnm := vc.declareFun("byteAt", []*Sort{SStr, SInt}, SInt)
		f.vals[x] = scalar(x.Type(), mk(SInt, fnm, s, idx))
		return
	}
	mt := x.X.Type()
	if g := f.val(x.X).Glob; g != "" {
		f.lockCheck(st, &Loc{Kind: LGlobal, Root: "G|" + g, Path: " (map contents)"}, false, x.Pos())
	}
	m := f.val(x.X).one()
	k := f.val(x.Index).one()
	dom, _, vals := f.mapComps(mt)
	f.mapSizeFacts(st, mt, m, &k)
	in := Select(Select(vc.get(st, dom), m), k)
	me := mt.Underlying().(*types.Map).Elem()
	out := Val{T: me}
	for i, lf := range layout(me) {
		out.L = append(out.L, Ite(in, Select(Select(vc.get(st, vals[i]), m), k), zeroOf(lf.Sort)))
	}
	out = f.assumeWF(st, out)
	if x.CommaOk {
		out.T = x.Type()
		out.L = append(out.L, in)
	}
	f.vals[x] = out
}

func (f *Frame) mapUpdate(st *State, x *ssa.MapUpdate) {
	mt := x.Map.Type()
	m := f.val(x.Map).one()
	k := f.val(x.Key).one()
	v := f.val(x.Value)
	f.oblige(st, "SAFE", "assignment to entry in nil map", x.Pos(), Ne(m, Zero))
	if g := f.val(x.Map).Glob; g != "" {
		f.lockCheck(st, &Loc{Kind: LGlobal, Root: "G|" + g, Path: " (map contents)"}, true, x.Pos())
	}
	f.mapStore(st, mt, m, k, v, x.Pos())
}

func (f *Frame) mapStore(st *State, mt types.Type, m, k Term, v Val, pos token.Pos) {
	vc := f.vc
	dom, size, vals := f.mapComps(mt)
	f.frameCheckRef(st, m, dom, pos, "map update")
	f.ownCheckVal(st, m, v, pos, "map update", "M|"+typeKey(mt))
	if !vc.freshRefs[m.S] {
		st.markDirty(dom)
		st.markDirty(size)
		for _, vn := range vals {
			st.markDirty(vn)
		}
	}
	d := vc.get(st, dom)
	dm := Select(d, m)
	was := Select(dm, k)
	s := vc.get(st, size)
	vc.set(st, size, Store(s, m, Add(Select(s, m), Ite(was, Zero, One))))
	vc.set(st, dom, Store(d, m, Store(dm, k, True)))
	for i := range v.L {
		c := vc.get(st, vals[i])
		vc.set(st, vals[i], Store(c, m, Store(Select(c, m), k, v.L[i])))
	}
}

func (f *Frame) mapDelete(st *State, mt types.Type, m, k Term, pos token.Pos) {
	vc := f.vc
	dom, size, _ := f.mapComps(mt)
	f.frameCheckRef(st, m, dom, pos, "map delete")
	st.markDirty(dom)
	st.markDirty(size)
	d := vc.get(st, dom)
	dm := Select(d, m)
	was := Select(dm, k)
	s := vc.get(st, size)
	// delete on a nil map is a no-op
	vc.set(st, size, Store(s, m, Sub(Select(s, m), Ite(was, One, Zero))))
	vc.set(st, dom, Store(d, m, Store(dm, k, False)))
}

// range over maps: ghost visited set per Range instruction.
func rangeKey(x *ssa.Range) string { return fmt.Sprintf("V|%s|%s", x.Parent().Name(), x.Name()) }

func (f *Frame) rangeInit(st *State, x *ssa.Range) {
	vc := f.vc
	if isStringT(x.X.Type()) {
		f.unsupported("range over string")
		return
	}
	mt := x.X.Type()
	ks := keySort(mt.Underlying().(*types.Map).Key())
	name := fmt.Sprintf("%s|d%d", rangeKey(x), f.depth)
	vc.registerComp(name, SArr(ks, SBool))
	vc.set(st, name, ConstArr(SArr(ks, SBool), False))
	f.vals[x] = f.val(x.X)
}

func (f *Frame) next(st *State, x *ssa.Next) {
	vc := f.vc
	rg, ok := x.Iter.(*ssa.Range)
	if !ok || x.IsString {
		f.unsupported("next on non-map iterator")
		f.vals[x] = vc.freshVal("next", x.Type())
		return
	}
	mt := rg.X.Type()
	m := f.val(rg).one()
	mm := mt.Underlying().(*types.Map)
	dom, _, vals := f.mapComps(mt)
	name := fmt.Sprintf("%s|d%d", rangeKey(rg), f.depth)
	V := vc.get(st, name)
	d := Select(vc.get(st, dom), m)
	okc := vc.fresh("more", SBool)
	k := vc.fresh("key", d.Sort.K)
	// ok => k in dom \ V ; !ok => dom subset V
	vc.fact(Imp(st.reach, Imp(okc, And(Select(d, k), Not(Select(V, k)), Ne(m, Zero)))))
	q := Term{"k!q", d.Sort.K}
	vc.fact(Imp(And(st.reach, Not(okc)), Forall([]Term{q}, Imp(Select(d, q), Select(V, q)), []Term{Select(d, q)})))
	vc.set(st, name, Ite(okc, Store(V, k, True), V))
	out := Val{T: x.Type(), L: []Term{okc, k}}
	val := Val{T: mm.Elem()}
	for i := range layout(mm.Elem()) {
		val.L = append(val.L, Select(Select(vc.get(st, vals[i]), m), k))
	}
	val = f.assumeWF(st, val)
	out.L = append(out.L, val.L...)
	f.vals[x] = out
}

// ---- defers ----

func (f *Frame) runDefers(st *State, x *ssa.RunDefers) {
	b := x.Block()
	for i := len(f.defers) - 1; i >= 0; i-- {
		d := f.defers[i]
		db := d.Block()
		if db == b || db.Dominates(b) {
			if l := f.innermostLoop(db); l != nil {
				f.unsupported("defer inside a loop")
			}
			f.call(st, nil, &d.Call, d.Pos())
			continue
		}
		if !reaches(db, b) {
			continue
		}
		f.unsupported("conditionally registered defer")
	}
}

func reaches(a, b *ssa.BasicBlock) bool {
	seen := map[*ssa.BasicBlock]bool{}
	var dfs func(x *ssa.BasicBlock) bool
	dfs = func(x *ssa.BasicBlock) bool {
		if x == b {
			return true
		}
		if seen[x] {
			return false
		}
		seen[x] = true
		for _, s := range x.Succs {
			if dfs(s) {
				return true
			}
		}
		return false
	}
	return dfs(a)
}

func (f *Frame) innermostLoop(b *ssa.BasicBlock) *Loop {
	var best *Loop
	for _, l := range f.loops {
		if l.blocks[b] && (best == nil || len(l.blocks) < len(best.blocks)) {
			best = l
		}
	}
	return best
}

// kindOfPtr is the allocation kind of the object a pointer type addresses.
func kindOfPtr(ptrT types.Type) string {
	el := deref(ptrT)
	if isStruct(el) {
		return "H|" + typeKey(el)
	}
	if isArray(el) {
		return "E|" + typeKey(elemOf(el))
	}
	return "C|" + typeKey(el)
}
