package main

import (
	"fmt"
	"go/token"
	"go/types"
	"sort"
	"strings"

	"golang.org/x/tools/go/ssa"
)

// Val is a symbolic Go value: a vector of scalar terms laid out by layout(T).
type Val struct {
	Glob string // loaded from this package-level variable (objects reachable only from it share its lock discipline)
	Set *Sort // non-nil: the value is a set (Array elem Bool), L[0] is the array term
	T   types.Type
	L   []Term
	Loc *Loc          // static location for pointers derived in this function
	Fn  *ssa.Function // static function / closure value
	Bnd []Val         // closure bindings
}

// Loc is a statically resolved memory location.
type Loc struct {
	Kind int // LObj, LElem, LGlobal
	Base Term
	Idx  Term
	Root string // "H|T", "C|T", "E|T", "G|name"
	Path string // suffix prefix inside the root
	T    types.Type
	// Interior says the location is inside a larger object (not a whole
	// object / cell) so it has no Ref of its own.
	Interior bool
}

const (
	LObj = iota
	LElem
	LGlobal
	LArr // pointer to a whole backing array (Alloc [N]T)
)

// State is the symbolic machine state at a program point.
type State struct {
	// dirty[c]: component c may differ from its function-entry version at
	// objects that existed at entry (a write with a base not known to be fresh,
	// or a loop havoc, happened). Clean components get direct frame facts.
	dirty map[string]bool
	heap  map[string]Term
	alloc Term
	reach Term
	// ghost
	ghost map[string]Term
}

func (s *State) clone() *State {
	n := &State{heap: make(map[string]Term, len(s.heap)), alloc: s.alloc, reach: s.reach, ghost: map[string]Term{}, dirty: map[string]bool{}}
	for k, v := range s.heap {
		n.heap[k] = v
	}
	for k, v := range s.dirty {
		n.dirty[k] = v
	}
	for k, v := range s.ghost {
		n.ghost[k] = v
	}
	return n
}

// Obl is one proof obligation.
type Obl struct {
	Name   string
	Class  string
	Fn     string
	Detail string
	Pos    string
	NFacts int
	Goal   Term
	Reach  Term
	// filled by the solver
	Status  string // "unsat" (discharged), "sat", "unknown", "timeout", "error", "unsupported"
	Backend string
	Ms      int64
	Output  string
	Hash    string
	// ModelVals asks the solver for the value of these terms on sat.
	ModelVals []Term
	Model     map[string]string
	Extra     map[string]string
}

// VC accumulates declarations, facts and obligations for one root function
// (or lemma).
type VC struct {
	eng      *Engine
	name     string
	decls    []string
	declared map[string]bool
	facts    []Term
	obls     []*Obl
	n        int
	comps    map[string]*Sort
	entry    map[string]Term // entry version of each heap component
	A0       Term
	classes  map[string]bool
	unsup    []string
	oblCount map[string]int
	fset     *token.FileSet
	usedExt  map[string]bool
	usedSpec map[string]bool
	inlined  map[string]bool
	noSafe   int // >0: suppress SAFE emission (spec evaluation)
	enabled  map[string]bool
	known    map[string]bool
	freshRefs map[string]bool               // constants returned by alloc (known fresh)
	preRefs   map[string]bool               // terms denoting objects that existed at function entry
	lits     map[string]bool                // string literals seen (closed terms)
	litFuncs map[string]func(string) string // uninterpreted string functions evaluable on literals
	litAxioms map[string]func(string) ([]string, []string) // per-literal axioms of other evaluable functions
	seenObl  map[string]bool
	useFS     bool                // a contract in force mentions field sets (append facts are emitted)
	frameOwned bool               // a property whose class set contains FRAME lists the root function
	pureFrame bool                // the root contract says "assigns \nothing"
	fsAnchor bool                 // field sets mentioned now belong to a loop-head assumption
	fsAnchors map[string][]int    // indices (into fsSeen) of loop-head mentions
	fsSeen   map[string][][3]Term // field-set applications mentioned so far (row, heap, n)
	binders  []string // quantifier variables in scope while a contract expression is evaluated
}

// hasBound: the term mentions a quantifier variable in scope (an instance
// fact about it cannot be stated at top level).
func (vc *VC) hasBound(ts ...Term) bool {
	for _, t := range ts {
		for _, b := range vc.binders {
			for off := 0; ; {
				i := strings.Index(t.S[off:], b)
				if i < 0 {
					break
				}
				i += off
				end := i + len(b)
				before := i == 0 || !isSymChar(t.S[i-1])
				after := end == len(t.S) || !isSymChar(t.S[end])
				if before && after {
					return true
				}
				off = end
			}
		}
	}
	return false
}

func newVC(eng *Engine, name string, classes map[string]bool) *VC {
	vc := &VC{eng: eng, name: name, declared: map[string]bool{}, comps: map[string]*Sort{}, entry: map[string]Term{},
		classes: classes, oblCount: map[string]int{}, fset: eng.fset, usedExt: map[string]bool{}, usedSpec: map[string]bool{}, inlined: map[string]bool{}, known: map[string]bool{}, seenObl: map[string]bool{}, freshRefs: map[string]bool{}, preRefs: map[string]bool{}, lits: map[string]bool{}, litFuncs: map[string]func(string) string{}, litAxioms: map[string]func(string) ([]string, []string){}}
	vc.A0 = vc.fresh("A0", SInt)
	vc.fact(Ge(vc.A0, One))
	return vc
}

func (vc *VC) want(class string) bool {
	if class == "FRAME" && vc.pureFrame && vc.noSafe == 0 {
		return true // (not while a contract expression is being evaluated)
	}
	return vc.classes == nil || vc.classes[class]
}

func isHeapComp(name string) bool {
	return strings.HasPrefix(name, "H|") || strings.HasPrefix(name, "E|") || strings.HasPrefix(name, "C|") || strings.HasPrefix(name, "Md|") || strings.HasPrefix(name, "Mv|") || strings.HasPrefix(name, "Ms|")
}

func (vc *VC) fresh(hint string, s *Sort) Term {
	vc.n++
	name := fmt.Sprintf("%s!%d", hint, vc.n)
	return vc.declare(name, s)
}

func (vc *VC) declare(name string, s *Sort) Term {
	t := Const(name, s)
	if !vc.declared[t.S] {
		vc.declared[t.S] = true
		vc.decls = append(vc.decls, fmt.Sprintf("(declare-fun %s () %s)", t.S, s))
	}
	return t
}

// declareFun declares an uninterpreted function.
func (vc *VC) declareFun(name string, args []*Sort, res *Sort) string {
	s := sym(name)
	if !vc.declared[s] {
		vc.declared[s] = true
		var as []string
		for _, a := range args {
			as = append(as, a.String())
		}
		vc.decls = append(vc.decls, fmt.Sprintf("(declare-fun %s (%s) %s)", s, strings.Join(as, " "), res))
	}
	return s
}

func isSymChar(c byte) bool {
	return c == '_' || c == '!' || c == '.' || c == '$' || c == '|' || (c >= '0' && c <= '9') || (c >= 'a' && c <= 'z') || (c >= 'A' && c <= 'Z')
}

func (vc *VC) fact(t Term) {
	if t.S == "true" {
		return
	}
	if len(vc.binders) > 0 && vc.hasBound(t) {
		return // an instance fact about a quantifier variable in scope cannot be stated at top level
	}
	if t.Sort != SBool && t.Sort.Name != "Bool" {
		panic("fact of non-bool: " + t.S)
	}
	vc.facts = append(vc.facts, t)
	vc.known[t.S] = true
}

func (vc *VC) unsupported(format string, a ...any) {
	msg := fmt.Sprintf(format, a...)
	for _, u := range vc.unsup {
		if u == msg {
			return
		}
	}
	vc.unsup = append(vc.unsup, msg)
}

// oblige records an obligation: under st.reach, goal must hold. Afterwards the
// goal is assumed.
func (vc *VC) oblige(st *State, class, fn, detail string, pos token.Pos, goal Term) *Obl {
	if !vc.want(class) {
		if class == "SAFE" || class == "PRE" {
			// still assumed: reported under the property that owns the class
			vc.fact(Imp(st.reach, goal))
		}
		return nil
	}
	if class == "SAFE" && vc.noSafe > 0 {
		return nil
	}
	if goal.S == "true" {
		return nil
	}
	if class == "SAFE" || class == "FRAME" || class == "OWN" {
		if vc.known[goal.S] {
			return nil
		}
		dk := class + "\x00" + st.reach.S + "\x00" + goal.S
		if vc.seenObl[dk] {
			return nil
		}
		vc.seenObl[dk] = true
	}
	key := fn + "/" + class + ":" + detail
	ord := vc.oblCount[key]
	vc.oblCount[key]++
	name := fmt.Sprintf("%s/%s#%d:%s", fn, class, ord, detail)
	o := &Obl{Name: name, Class: class, Fn: fn, Detail: detail, NFacts: len(vc.facts), Goal: goal, Reach: st.reach}
	if pos.IsValid() {
		p := vc.fset.Position(pos)
		o.Pos = fmt.Sprintf("%s:%d", strings.TrimPrefix(p.Filename, "/repo/"), p.Line)
	}
	vc.obls = append(vc.obls, o)
	switch class {
	case "SAFE", "PRE", "INV", "TERM":
		// later obligations may rely on earlier safety / precondition / invariant
		// checks having passed (each is reported on its own)
		vc.fact(Imp(st.reach, goal))
	}
	return o
}

// ---- heap components ----

func (vc *VC) compSort(name string) *Sort {
	s, ok := vc.comps[name]
	if !ok {
		panic("unknown heap component " + name)
	}
	return s
}

func (vc *VC) registerComp(name string, s *Sort) {
	if old, ok := vc.comps[name]; ok {
		if !old.Eq(s) {
			panic("component sort clash " + name + ": " + old.String() + " vs " + s.String())
		}
		return
	}
	vc.comps[name] = s
}

// get returns the current version of component name in st.
func (vc *VC) get(st *State, name string) Term {
	if t, ok := st.heap[name]; ok {
		return t
	}
	if t, ok := vc.entry[name]; ok {
		return t
	}
	s := vc.compSort(name)
	t := vc.declare(name+"@0", s)
	vc.entry[name] = t
	vc.entryClosed(name, t)
	if name == "Mine" {
		r := Term{"r!q", SInt}
		vc.fact(Forall([]Term{r}, Not(Select(t, r)), []Term{Select(t, r)}))
	}
	return t
}

// entryClosed: at function entry every stored reference is below A0.
func (vc *VC) entryClosed(name string, c Term) {
	if !isRefComp(name) {
		return
	}
	r := Term{"r!q", SInt}
	switch {
	case strings.HasPrefix(name, "H|") || strings.HasPrefix(name, "C|"):
		e := Select(c, r)
		vc.fact(Forall([]Term{r}, And(Le(Zero, e), Lt(e, vc.A0)), []Term{e}))
	case strings.HasPrefix(name, "E|"):
		j := Term{"j!q", SInt}
		e := Select(Select(c, r), j)
		vc.fact(Forall([]Term{r, j}, And(Le(Zero, e), Lt(e, vc.A0)), []Term{e}))
	case strings.HasPrefix(name, "Mv|"):
		kk := Term{"k!q", c.Sort.V.K}
		e := Select(Select(c, r), kk)
		vc.fact(Forall([]Term{r, kk}, And(Le(Zero, e), Lt(e, vc.A0)), []Term{e}))
	}
}

// set installs a new version of a component, naming it with a fresh constant.
func (vc *VC) set(st *State, name string, val Term) {
	c := vc.fresh(name, val.Sort)
	vc.fact(Eq(c, val))
	st.heap[name] = c
}

// havoc replaces a component by an unconstrained fresh version.
func (vc *VC) havoc(st *State, name string) Term {
	c := vc.fresh(name, vc.compSort(name))
	st.heap[name] = c
	return c
}

// alloc returns a fresh reference and records its dynamic kind (ghost
// component Ty) so that invariants can quantify over objects of one kind.
func (vc *VC) alloc(st *State, hint string, kind string) Term {
	r := vc.fresh("r_"+hint, SInt)
	vc.freshRefs[r.S] = true
	vc.fact(Eq(r, st.alloc))
	a := vc.fresh("A", SInt)
	vc.fact(Eq(a, Add(st.alloc, One)))
	st.alloc = a
	vc.registerComp("Ty", SArr(SInt, SInt))
	vc.set(st, "Ty", Store(vc.get(st, "Ty"), r, vc.kindTag(kind)))
	vc.registerComp("Mine", SArr(SInt, SBool))
	vc.set(st, "Mine", Store(vc.get(st, "Mine"), r, True))
	return r
}

// mineFacts: objects not yet allocated are not "mine" (allocated by this
// activation or handed over by an owning callee).
func (vc *VC) mineFacts(st *State) {
	vc.registerComp("Mine", SArr(SInt, SBool))
	m := vc.get(st, "Mine")
	r := Term{"r!q", SInt}
	vc.fact(Forall([]Term{r}, Imp(Select(m, r), And(Le(vc.A0, r), Lt(r, st.alloc))), []Term{Select(m, r)}))
}

func (vc *VC) kindTag(kind string) Term {
	id, ok := vc.eng.kindIDs[kind]
	if !ok {
		id = int64(len(vc.eng.kindIDs) + 1)
		vc.eng.kindIDs[kind] = id
	}
	return IntT(id)
}

// kindOfComp maps a heap component to the allocation kind of its objects.
func kindOfComp(name string) string {
	parts := strings.SplitN(name, "|", 3)
	if len(parts) < 2 {
		return ""
	}
	switch parts[0] {
	case "H", "C", "E":
		return parts[0] + "|" + parts[1]
	case "Md", "Ms", "Mv":
		return "M|" + parts[1]
	}
	return ""
}

// join merges edge states into a block entry state.
func (vc *VC) join(ins []*State) *State {
	if len(ins) == 0 {
		return nil
	}
	if len(ins) == 1 {
		return ins[0].clone()
	}
	out := &State{heap: map[string]Term{}, ghost: map[string]Term{}, dirty: map[string]bool{}}
	for _, s := range ins {
		for k, v := range s.dirty {
			if v {
				out.dirty[k] = true
			}
		}
	}
	var reaches []Term
	for _, s := range ins {
		reaches = append(reaches, s.reach)
	}
	r := vc.fresh("R", SBool)
	vc.fact(Eq(r, Or(reaches...)))
	out.reach = r
	keys := map[string]bool{}
	for _, s := range ins {
		for k := range s.heap {
			keys[k] = true
		}
	}
	var ks []string
	for k := range keys {
		ks = append(ks, k)
	}
	sort.Strings(ks)
	for _, k := range ks {
		first := vc.get(ins[0], k)
		same := true
		for _, s := range ins[1:] {
			if vc.get(s, k).S != first.S {
				same = false
				break
			}
		}
		if same {
			out.heap[k] = first
			continue
		}
		c := vc.fresh(k, first.Sort)
		for _, s := range ins {
			vc.fact(Imp(s.reach, Eq(c, vc.get(s, k))))
		}
		out.heap[k] = c
	}
	// allocator
	same := true
	for _, s := range ins[1:] {
		if s.alloc.S != ins[0].alloc.S {
			same = false
		}
	}
	if same {
		out.alloc = ins[0].alloc
	} else {
		a := vc.fresh("A", SInt)
		for _, s := range ins {
			vc.fact(Imp(s.reach, Eq(a, s.alloc)))
		}
		out.alloc = a
	}
	// ghost
	gk := map[string]bool{}
	for _, s := range ins {
		for k := range s.ghost {
			gk[k] = true
		}
	}
	for k := range gk {
		var first Term
		have := false
		same := true
		for _, s := range ins {
			t, ok := s.ghost[k]
			if !ok {
				same = false
				continue
			}
			if !have {
				first, have = t, true
			} else if t.S != first.S {
				same = false
			}
		}
		if same {
			out.ghost[k] = first
			continue
		}
		c := vc.fresh("g_"+k, first.Sort)
		for _, s := range ins {
			if t, ok := s.ghost[k]; ok {
				vc.fact(Imp(s.reach, Eq(c, t)))
			}
		}
		out.ghost[k] = c
	}
	return out
}

// joinVals merges values arriving along edges.
func (vc *VC) joinVals(hint string, reaches []Term, vs []Val) Val {
	if len(vs) == 1 {
		return vs[0]
	}
	out := Val{T: vs[0].T}
	for i := range vs[0].L {
		same := true
		for _, v := range vs[1:] {
			if v.L[i].S != vs[0].L[i].S {
				same = false
			}
		}
		if same {
			out.L = append(out.L, vs[0].L[i])
			continue
		}
		c := vc.fresh(hint, vs[0].L[i].Sort)
		for j, v := range vs {
			vc.fact(Imp(reaches[j], Eq(c, v.L[i])))
		}
		out.L = append(out.L, c)
	}
	// static annotations survive only if identical
	sameFn := true
	for _, v := range vs[1:] {
		if v.Fn != vs[0].Fn {
			sameFn = false
		}
	}
	if sameFn && vs[0].Fn != nil && len(vs[0].Bnd) == 0 {
		out.Fn = vs[0].Fn
	}
	return out
}

// ---- locations ----

func (vc *VC) locComp(l *Loc, suffix string) string {
	return l.Root + "|" + l.Path + suffix
}

// registerLoc makes sure the components under loc exist with the right sorts.
func (vc *VC) registerLoc(l *Loc) {
	for _, lf := range layout(l.T) {
		name := vc.locComp(l, lf.Suffix)
		noteRefComp(name, lf)
		switch l.Kind {
		case LObj:
			vc.registerComp(name, SArr(SInt, lf.Sort))
		case LElem:
			vc.registerComp(name, SArr(SInt, SArr(SInt, lf.Sort)))
		case LGlobal:
			vc.registerComp(name, lf.Sort)
		}
	}
}

// at returns the version of component name to read at object base: the
// function-entry version when the component is clean in st and base is known
// to be an object that existed at entry (canonical terms across calls).
func (vc *VC) at(st *State, name string, base Term) Term {
	// a function whose contract says "assigns \nothing" never changes an object
	// that existed at entry: every write is checked against the clause (FRAME
	// obligations, forced on for such functions), so reads of pre-existing
	// objects can use the entry version (assume-guarantee over execution steps)
	if vc.pureFrame && vc.preRefs[base.S] && name != "Ty" && name != "Mine" && isHeapComp(name) {
		return vc.get(&State{}, name)
	}
	if !st.dirty[name] && vc.preRefs[base.S] && name != "Ty" && name != "Mine" {
		if _, written := st.heap[name]; written {
			return vc.get(&State{}, name)
		}
	}
	return vc.get(st, name)
}

// notePre records that a loaded reference leaf denotes a pre-existing object.
func (vc *VC) notePre(c Term, name string, t Term) {
	if strings.HasSuffix(c.S, "@0|") || strings.HasSuffix(c.S, "@0") {
		if isRefComp(name) {
			vc.preRefs[t.S] = true
		}
	}
}

func (vc *VC) load(st *State, l *Loc) Val {
	vc.registerLoc(l)
	v := Val{T: l.T}
	for _, lf := range layout(l.T) {
		name := vc.locComp(l, lf.Suffix)
		c := vc.get(st, name)
		if l.Kind != LGlobal {
			c = vc.at(st, name, l.Base)
		}
		switch l.Kind {
		case LObj:
			t := Select(c, l.Base)
			vc.notePre(c, name, t)
			v.L = append(v.L, t)
		case LElem:
			t := Select(Select(c, l.Base), l.Idx)
			vc.notePre(c, name, t)
			v.L = append(v.L, t)
		case LGlobal:
			v.L = append(v.L, c)
		}
	}
	return v
}

func (vc *VC) store(st *State, l *Loc, v Val) {
	vc.registerLoc(l)
	lay := layout(l.T)
	if len(lay) != len(v.L) {
		panic(fmt.Sprintf("store: layout mismatch %s (%d) vs %s (%d)", l.T, len(lay), v.T, len(v.L)))
	}
	for i, lf := range lay {
		name := vc.locComp(l, lf.Suffix)
		c := vc.get(st, name)
		if l.Kind != LGlobal && !vc.freshRefs[l.Base.S] {
			st.markDirty(name)
		}
		switch l.Kind {
		case LObj:
			vc.set(st, name, Store(c, l.Base, v.L[i]))
			if vc.freshRefs[v.L[i].S] {
				// reading the field back yields the same fresh reference
				vc.freshRefs[Select(st.heap[name], l.Base).S] = true
			}
		case LElem:
			vc.set(st, name, Store(c, l.Base, Store(Select(c, l.Base), l.Idx, v.L[i])))
		case LGlobal:
			vc.set(st, name, v.L[i])
		}
	}
}

// compsOfLoc lists the component names covered by a location of type t.
func compsOfLoc(l *Loc) []string {
	var out []string
	for _, lf := range layout(l.T) {
		out = append(out, l.Root+"|"+l.Path+lf.Suffix)
	}
	return out
}

// objLoc is the location of the whole object a pointer of type ptrT points to.
func objLoc(ptrT types.Type, ref Term) *Loc {
	el := deref(ptrT)
	if isStruct(el) {
		return &Loc{Kind: LObj, Base: ref, Root: "H|" + typeKey(el), T: el}
	}
	if isArray(el) {
		return &Loc{Kind: LArr, Base: ref, Root: "E|" + typeKey(elemOf(el)), T: el}
	}
	return &Loc{Kind: LObj, Base: ref, Root: "C|" + typeKey(el), T: el}
}

func zeroVal(t types.Type) Val {
	v := Val{T: t}
	for _, lf := range layout(t) {
		v.L = append(v.L, zeroOf(lf.Sort))
	}
	return v
}

func (vc *VC) freshVal(hint string, t types.Type) Val {
	v := Val{T: t}
	for _, lf := range layout(t) {
		v.L = append(v.L, vc.fresh(hint+lf.Suffix, lf.Sort))
	}
	return v
}

func scalar(t types.Type, x Term) Val { return Val{T: t, L: []Term{x}} }

func (v Val) one() Term {
	if len(v.L) != 1 {
		panic(fmt.Sprintf("value of type %s is not scalar (%d leaves)", v.T, len(v.L)))
	}
	return v.L[0]
}

// slice accessors
func (v Val) arr() Term  { return v.L[0] }
func (v Val) len() Term  { return v.L[1] }
func (v Val) cap_() Term { return v.L[2] }

func sliceVal(t types.Type, arr, ln, cp Term) Val { return Val{T: t, L: []Term{arr, ln, cp}} }

// valEq is structural equality of two values of the same layout.
func valEq(a, b Val) Term {
	if len(a.L) != len(b.L) {
		panic(fmt.Sprintf("valEq: layout mismatch %s vs %s", a.T, b.T))
	}
	var cs []Term
	for i := range a.L {
		cs = append(cs, Eq(a.L[i], b.L[i]))
	}
	return And(cs...)
}

// mineOrNil: e is nil or an object allocated by this activation (or handed
// over by an owning callee); implies e == 0 || e >= A0.
func (vc *VC) mineOrNil(st *State, e Term) Term {
	vc.registerComp("Mine", SArr(SInt, SBool))
	return Or(Eq(e, Zero), Select(vc.get(st, "Mine"), e))
}

// prelude: closed-term axioms. Pure string functions of the standard library
// are evaluated with the real implementation on every string literal that
// occurs in the VC (uf(lit) == value).
func (vc *VC) prelude() []string {
	var out []string
	var names, an []string
	for n := range vc.litFuncs {
		names = append(names, n)
	}
	sort.Strings(names)
	for n := range vc.litAxioms {
		an = append(an, n)
	}
	sort.Strings(an)
	var work []string
	for l := range vc.lits {
		work = append(work, l)
	}
	sort.Strings(work)
	// values are literals too (ToUpper(ToUpper(x)), Split(Split(x)[1])): close
	// the literal set under the evaluable functions (bounded: results only shrink
	// or are idempotent images)
	seen := map[string]bool{}
	for len(work) > 0 && len(seen) < 4096 {
		l := work[0]
		work = work[1:]
		if seen[l] {
			continue
		}
		seen[l] = true
		for _, n := range names {
			v := vc.litFuncs[n](l)
			out = append(out, fmt.Sprintf("(assert (= (%s %s) %s))", sym(n), StrT(l).S, StrT(v).S))
			if !seen[v] {
				work = append(work, v)
			}
		}
		for _, n := range an {
			ax, vals := vc.litAxioms[n](l)
			out = append(out, ax...)
			for _, v := range vals {
				if !seen[v] {
					work = append(work, v)
				}
			}
		}
	}
	return out
}

func (st *State) markDirty(name string) {
	if st.dirty == nil {
		st.dirty = map[string]bool{}
	}
	st.dirty[name] = true
}
