package serializers

import (
	"testing"
	"time"

	"github.com/protobom/protobom/pkg/sbom"
	"github.com/spdx/tools-golang/spdx"
	"google.golang.org/protobuf/types/known/timestamppb"
)

// C01 finding: package dates are written with Timestamp.String() (protobuf text
// format, "seconds:1700000000") instead of an SPDX/RFC 3339 date, so no reader
// (protobom's own included) can parse them back.
func TestVerifC01SPDXDatesAreRFC3339(t *testing.T) {
	when := time.Date(2023, 11, 14, 22, 13, 20, 0, time.UTC)
	doc := sbom.NewDocument()
	doc.NodeList.AddNode(&sbom.Node{Id: "n", Name: "n", ReleaseDate: timestamppb.New(when), BuildDate: timestamppb.New(when), ValidUntilDate: timestamppb.New(when)})
	out, err := NewSPDX23().Serialize(doc, nil, nil)
	if err != nil {
		t.Fatal(err)
	}
	p := out.(*spdx.Document).Packages[0]
	for name, got := range map[string]string{"releaseDate": p.ReleaseDate, "builtDate": p.BuiltDate, "validUntilDate": p.ValidUntilDate} {
		back, err := time.Parse(time.RFC3339Nano, got)
		if err != nil {
			t.Errorf("%s %q is not an RFC 3339 date: %v", name, got, err)
			continue
		}
		if back.Unix() != when.Unix() {
			t.Errorf("%s %q is not the node's date", name, got)
		}
	}
}
