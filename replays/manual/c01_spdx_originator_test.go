package serializers

import (
	"testing"

	"github.com/protobom/protobom/pkg/sbom"
	"github.com/spdx/tools-golang/spdx"
)

// C01 finding: the first originator of a node is written into the package's
// *supplier* field: the supplier is lost and no originator is emitted.
func TestVerifC01SPDXOriginatorOverwritesSupplier(t *testing.T) {
	doc := sbom.NewDocument()
	doc.NodeList.AddNode(&sbom.Node{
		Id: "n", Name: "n",
		Suppliers:   []*sbom.Person{{Name: "the supplier", IsOrg: true}},
		Originators: []*sbom.Person{{Name: "the originator"}},
	})
	out, err := NewSPDX23().Serialize(doc, nil, nil)
	if err != nil {
		t.Fatal(err)
	}
	p := out.(*spdx.Document).Packages[0]
	if p.PackageOriginator == nil {
		t.Errorf("no originator emitted")
	}
	if p.PackageSupplier == nil || p.PackageSupplier.Supplier != "the supplier" {
		t.Errorf("supplier lost: %+v", p.PackageSupplier)
	}
}
