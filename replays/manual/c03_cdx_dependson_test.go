package serializers

import (
	"testing"

	cdx "github.com/CycloneDX/cyclonedx-go"
	"github.com/protobom/protobom/pkg/sbom"
)

// C03 finding: a dependsOn edge marks its targets as "already placed", although
// only contains edges nest a component under its parent. A node that is only
// the target of a dependsOn edge is therefore in neither the component list
// nor any component's sub-components, while the dependency still refers to it.
func TestVerifC03CDXDependsOnTargetDropped(t *testing.T) {
	doc := sbom.NewDocument()
	doc.NodeList.AddRootNode(&sbom.Node{Id: "root", Name: "root"})
	doc.NodeList.AddNode(&sbom.Node{Id: "a", Name: "a"})
	doc.NodeList.AddNode(&sbom.Node{Id: "b", Name: "b"})
	doc.NodeList.AddEdge(&sbom.Edge{From: "root", Type: sbom.Edge_contains, To: []string{"a"}})
	doc.NodeList.AddEdge(&sbom.Edge{From: "a", Type: sbom.Edge_dependsOn, To: []string{"b"}})
	out, err := NewCDX("1.5", "json").Serialize(doc, nil, nil)
	if err != nil {
		t.Fatal(err)
	}
	bom := out.(*cdx.BOM)
	seen := map[string]bool{bom.Metadata.Component.BOMRef: true}
	var walk func(cs *[]cdx.Component)
	walk = func(cs *[]cdx.Component) {
		if cs == nil {
			return
		}
		for i := range *cs {
			seen[(*cs)[i].BOMRef] = true
			walk((*cs)[i].Components)
		}
	}
	walk(bom.Metadata.Component.Components)
	walk(bom.Components)
	for _, id := range []string{"root", "a", "b"} {
		if !seen[id] {
			t.Errorf("node %q is in no component list of the CycloneDX document: %v", id, seen)
		}
	}
}
