package serializers

import (
	"testing"

	cdx "github.com/CycloneDX/cyclonedx-go"
	"github.com/protobom/protobom/pkg/sbom"
)

// C03 finding: every edge whose source has already been nested under a parent is
// skipped, also dependsOn edges: the dependency a -> b below is silently lost.
func TestVerifC03CDXDependencyOfNestedNodeDropped(t *testing.T) {
	doc := sbom.NewDocument()
	doc.NodeList.AddRootNode(&sbom.Node{Id: "root", Name: "root"})
	doc.NodeList.AddNode(&sbom.Node{Id: "p", Name: "p"})
	doc.NodeList.AddNode(&sbom.Node{Id: "a", Name: "a"})
	doc.NodeList.AddNode(&sbom.Node{Id: "b", Name: "b"})
	doc.NodeList.AddEdge(&sbom.Edge{From: "p", Type: sbom.Edge_contains, To: []string{"a"}})
	doc.NodeList.AddEdge(&sbom.Edge{From: "a", Type: sbom.Edge_dependsOn, To: []string{"b"}})
	out, err := NewCDX("1.5", "json").Serialize(doc, nil, nil)
	if err != nil {
		t.Fatal(err)
	}
	bom := out.(*cdx.BOM)
	found := false
	if bom.Dependencies != nil {
		for _, d := range *bom.Dependencies {
			if d.Ref == "a" && d.Dependencies != nil {
				for _, x := range *d.Dependencies {
					if x == "b" {
						found = true
					}
				}
			}
		}
	}
	if !found {
		t.Fatalf("dependency a -> b is missing from the CycloneDX document: %+v", bom.Dependencies)
	}
}
