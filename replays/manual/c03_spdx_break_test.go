package serializers

import (
	"testing"

	"github.com/protobom/protobom/pkg/sbom"
	"github.com/spdx/tools-golang/spdx"
)

// C03/C01 finding: a node with more than one primary purpose makes
// buildPackages leave its loop: that node and every node after it are
// silently dropped from the SPDX document.
func TestVerifC03SPDXMultiPurposeDropsNodes(t *testing.T) {
	doc := sbom.NewDocument()
	doc.NodeList.AddNode(&sbom.Node{Id: "first", Name: "first"})
	doc.NodeList.AddNode(&sbom.Node{Id: "multi", Name: "multi", PrimaryPurpose: []sbom.Purpose{sbom.Purpose_LIBRARY, sbom.Purpose_APPLICATION}})
	doc.NodeList.AddNode(&sbom.Node{Id: "last", Name: "last"})
	s := NewSPDX23()
	out, err := s.Serialize(doc, nil, nil)
	if err != nil {
		t.Fatal(err)
	}
	got := map[string]bool{}
	for _, p := range out.(*spdx.Document).Packages {
		got[string(p.PackageSPDXIdentifier)] = true
	}
	for _, id := range []string{"first", "multi", "last"} {
		if !got[id] {
			t.Errorf("node %q is missing from the SPDX packages: %v", id, got)
		}
	}
}
