package unserializers

import (
	"strings"
	"testing"
)

// C04: parsers never panic on schema-violating JSON.
func parseNoPanic(t *testing.T, f func() error) {
	t.Helper()
	defer func() {
		if r := recover(); r != nil {
			t.Fatalf("parser panicked: %v", r)
		}
	}()
	_ = f()
}

func TestVerifC04CDXLicenseWithoutLicenseObject(t *testing.T) {
	in := `{"bomFormat":"CycloneDX","specVersion":"1.5","version":1,"components":[{"type":"library","name":"a","licenses":[{}]}]}`
	parseNoPanic(t, func() error { _, err := NewCDX("1.5", "json").Unserialize(strings.NewReader(in), nil, nil); return err })
}

func TestVerifC04SPDXNullEntries(t *testing.T) {
	for _, in := range []string{
		`{"spdxVersion":"SPDX-2.3","SPDXID":"SPDXRef-DOCUMENT","name":"x","packages":[null]}`,
		`{"spdxVersion":"SPDX-2.3","SPDXID":"SPDXRef-DOCUMENT","name":"x","files":[null]}`,
		`{"spdxVersion":"SPDX-2.3","SPDXID":"SPDXRef-DOCUMENT","name":"x","relationships":[null]}`,
		`{"spdxVersion":"SPDX-2.3","SPDXID":"SPDXRef-DOCUMENT","name":"x","packages":[{"SPDXID":"SPDXRef-a","name":"a","externalRefs":[null]}]}`,
	} {
		in := in
		t.Run(in[60:], func(t *testing.T) {
			parseNoPanic(t, func() error { _, err := NewSPDX23().Unserialize(strings.NewReader(in), nil, nil); return err })
		})
	}
}
