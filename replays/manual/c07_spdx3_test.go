package beta

import (
	"io"
	"testing"

	"github.com/protobom/protobom/pkg/native"
	"github.com/protobom/protobom/pkg/sbom"
)

func TestVerifC07SPDX3Total(t *testing.T) {
	for name, d := range map[string]*sbom.Document{"nil": nil, "empty": {}, "no-nodelist": {Metadata: &sbom.Metadata{}}} {
		func() {
			defer func() {
				if r := recover(); r != nil {
					t.Errorf("spdx3 %s panicked: %v", name, r)
				}
			}()
			_, _ = NewSPDX3().Serialize(d, &native.SerializeOptions{}, nil)
		}()
	}
	func() {
		defer func() {
			if r := recover(); r != nil {
				t.Errorf("spdx3 render with negative indent panicked: %v", r)
			}
		}()
		s := NewSPDX3()
		doc, err := s.Serialize(sbom.NewDocument(), &native.SerializeOptions{}, nil)
		if err == nil {
			_ = s.Render(doc, io.Discard, &native.RenderOptions{Indent: -2}, nil)
		}
	}()
}
