package serializers

import (
	"io"
	"testing"

	"github.com/protobom/protobom/pkg/native"
	"github.com/protobom/protobom/pkg/sbom"
)

// C07: serializers never panic, whatever the document value.
func noPanic(t *testing.T, name string, f func()) {
	t.Helper()
	defer func() {
		if r := recover(); r != nil {
			t.Errorf("%s panicked: %v", name, r)
		}
	}()
	f()
}

func TestVerifC07SerializersTotal(t *testing.T) {
	other := sbom.DocumentType_OTHER
	docs := map[string]*sbom.Document{
		"empty":              {},
		"nil":                nil,
		"no-nodelist":        {Metadata: &sbom.Metadata{Id: "x"}},
		"no-metadata":        {NodeList: &sbom.NodeList{}},
		"doctype-no-name":    {Metadata: &sbom.Metadata{Id: "x", DocumentTypes: []*sbom.DocumentType{{}}}, NodeList: &sbom.NodeList{Nodes: []*sbom.Node{{Id: "r"}}, RootElements: []string{"r"}}},
		"doctype-other-noname": {Metadata: &sbom.Metadata{Id: "x", DocumentTypes: []*sbom.DocumentType{{Type: &other}}}, NodeList: &sbom.NodeList{Nodes: []*sbom.Node{{Id: "r"}}, RootElements: []string{"r"}}},
	}
	for name, d := range docs {
		d := d
		noPanic(t, "cdx/"+name, func() { _, _ = NewCDX("1.5", "json").Serialize(d, &native.SerializeOptions{}, nil) })
		noPanic(t, "spdx/"+name, func() { _, _ = NewSPDX23().Serialize(d, &native.SerializeOptions{}, nil) })
	}
}

func TestVerifC07RenderNegativeIndent(t *testing.T) {
	s := NewSPDX23()
	doc, err := s.Serialize(sbom.NewDocument(), &native.SerializeOptions{}, nil)
	if err != nil {
		t.Skip(err)
	}
	noPanic(t, "spdx render indent -1", func() { _ = s.Render(doc, io.Discard, &native.RenderOptions{Indent: -1}, nil) })
}
