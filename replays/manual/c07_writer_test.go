package writer

import (
	"testing"

	"github.com/protobom/protobom/pkg/formats"
	"github.com/protobom/protobom/pkg/sbom"
)

type nopCloser struct{}

func (nopCloser) Write(p []byte) (int, error) { return len(p), nil }
func (nopCloser) Close() error                { return nil }

// C07: writing never panics; a nil driver in the registry must surface as an error.
func TestVerifC07NilSerializerRegistered(t *testing.T) {
	f := formats.Format("application/x-verif-nil")
	RegisterSerializer(f, nil)
	defer UnregisterSerializer(f)
	defer func() {
		if r := recover(); r != nil {
			t.Fatalf("WriteStream panicked: %v", r)
		}
	}()
	w := New(WithFormat(f))
	if err := w.WriteStream(sbom.NewDocument(), nopCloser{}); err == nil {
		t.Fatalf("expected an error for a nil serializer")
	}
}
