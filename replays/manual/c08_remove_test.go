package sbom

import "testing"

// C08 finding F8: removing a root node leaves its identifier in RootElements,
// so the result is no longer a well-formed graph (a root names an absent node).
func TestVerifC08RemoveRootLeavesDanglingRoot(t *testing.T) {
	nl := &NodeList{
		Nodes:        []*Node{{Id: "root"}, {Id: "leaf"}},
		Edges:        []*Edge{{From: "root", Type: Edge_contains, To: []string{"leaf"}}},
		RootElements: []string{"root"},
	}
	nl.RemoveNodes([]string{"root"})
	ids := map[string]bool{}
	for _, n := range nl.Nodes {
		ids[n.Id] = true
	}
	for _, r := range nl.RootElements {
		if !ids[r] {
			t.Fatalf("root element %q names no node after RemoveNodes; nodes=%v", r, ids)
		}
	}
}
