package sbom

import "testing"

// C09 finding F7: NodeList.Add augments an existing node with itself instead of
// with the argument's node, so the receiver's empty attributes are never filled.
func TestVerifC09AddFillsEmptyAttributes(t *testing.T) {
	nl := &NodeList{Nodes: []*Node{{Id: "a", Name: "kept"}}}
	nl2 := &NodeList{Nodes: []*Node{{Id: "a", Name: "ignored", Version: "1.0"}}}
	nl.Add(nl2)
	if len(nl.Nodes) != 1 {
		t.Fatalf("expected one node, got %d", len(nl.Nodes))
	}
	if nl.Nodes[0].Name != "kept" {
		t.Fatalf("receiver's non-empty Name was overwritten: %q", nl.Nodes[0].Name)
	}
	if nl.Nodes[0].Version != "1.0" {
		t.Fatalf("receiver's empty Version was not filled from the argument: %q", nl.Nodes[0].Version)
	}
}
