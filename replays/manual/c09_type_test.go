package sbom

import "testing"

// C09 known finding: the node kind (Type) never takes part in the precedence rule.
func TestVerifC09UpdateIgnoresType(t *testing.T) {
	n := &Node{Id: "a", Type: Node_PACKAGE}
	n.Update(&Node{Id: "a", Type: Node_FILE})
	if n.Type != Node_FILE {
		t.Fatalf("Update: second operand's non-empty Type (FILE) was not taken: %v", n.Type)
	}
}

func TestVerifC09AugmentIgnoresType(t *testing.T) {
	n := &Node{Id: "a", Type: Node_PACKAGE}
	n.Augment(&Node{Id: "a", Type: Node_FILE})
	if n.Type != Node_FILE {
		t.Fatalf("Augment: receiver's empty (zero) Type was not filled from the argument: %v", n.Type)
	}
}
