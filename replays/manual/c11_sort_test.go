package sbom

import (
	"reflect"
	"testing"
)

// C11: comparing never modifies the operands (order-sensitive snapshot).
func TestVerifC11EdgeEqualSortsOperand(t *testing.T) {
	e := &Edge{From: "a", Type: Edge_contains, To: []string{"z", "b"}}
	before := append([]string{}, e.To...)
	e.Equal(&Edge{From: "a", Type: Edge_contains, To: []string{"b", "z"}})
	if !reflect.DeepEqual(before, e.To) {
		t.Fatalf("Edge.Equal reordered the operand's To: %v -> %v", before, e.To)
	}
}

func TestVerifC11NodeListEqualSortsOperand(t *testing.T) {
	nl := &NodeList{RootElements: []string{"z", "b"}}
	nl2 := &NodeList{RootElements: []string{"y", "a"}}
	nl.Equal(nl2)
	if nl.RootElements[0] != "z" || nl2.RootElements[0] != "y" {
		t.Fatalf("NodeList.Equal reordered the operands' root elements: %v %v", nl.RootElements, nl2.RootElements)
	}
}
