package sbom

import "testing"

// C12: a copy shares no mutable state with its source.
func TestVerifC12EdgeCopyIndependent(t *testing.T) {
	e := &Edge{From: "a", Type: Edge_contains, To: []string{"x", "y"}}
	c := e.Copy()
	c.To[0] = "mutated"
	if e.To[0] != "x" {
		t.Fatalf("mutating the copy's To changed the source: %v", e.To)
	}
}

func TestVerifC12NodeCopyIndependent(t *testing.T) {
	n := &Node{Id: "n", PrimaryPurpose: []Purpose{Purpose_LIBRARY}}
	c := n.Copy()
	c.PrimaryPurpose[0] = Purpose_FILE
	if n.PrimaryPurpose[0] != Purpose_LIBRARY {
		t.Fatalf("mutating the copy's PrimaryPurpose changed the source")
	}
}

func TestVerifC12PersonCopy(t *testing.T) {
	p := &Person{Name: "p", Contacts: []*Person{{Name: "c1"}}}
	c := p.Copy()
	if len(p.Contacts[0].Contacts) != 0 {
		t.Fatalf("Copy modified the source: contact got %d contacts", len(p.Contacts[0].Contacts))
	}
	if len(c.Contacts) != 1 || c.Contacts[0].Name != "c1" {
		t.Fatalf("copy does not equal its source: contacts %v", c.Contacts)
	}
}
