package sbom

import "testing"

// C12: the result of a union/intersection shares no mutable state with its operands,
// and earlier results are not altered by later calls.
func TestVerifC12UnionRootsShared(t *testing.T) {
	roots := make([]string, 1, 4)
	roots[0] = "a"
	nl := &NodeList{Nodes: []*Node{{Id: "a"}}, RootElements: roots}
	b := &NodeList{Nodes: []*Node{{Id: "b"}}, RootElements: []string{"b"}}
	c := &NodeList{Nodes: []*Node{{Id: "c"}}, RootElements: []string{"c"}}
	u1 := nl.Union(b)
	_ = nl.Union(c)
	if len(u1.RootElements) != 2 || u1.RootElements[1] != "b" {
		t.Fatalf("earlier union result altered by a later union: roots %v", u1.RootElements)
	}
}

func TestVerifC12UnionNodeShared(t *testing.T) {
	nl := &NodeList{Nodes: []*Node{{Id: "a"}}}
	nl2 := &NodeList{Nodes: []*Node{{Id: "b", Name: "orig"}}}
	u := nl.Union(nl2)
	u.GetNodeByID("b").Name = "mutated"
	if nl2.Nodes[0].Name != "orig" {
		t.Fatalf("mutating the union result changed the second operand's node")
	}
}

func TestVerifC12UnionUpdateLeak(t *testing.T) {
	nl := &NodeList{Nodes: []*Node{{Id: "a"}}}
	nl2 := &NodeList{Nodes: []*Node{{Id: "a", Licenses: []string{"MIT"}, Hashes: map[int32]string{1: "x"}}}}
	u := nl.Union(nl2)
	u.Nodes[0].Licenses[0] = "mutated"
	u.Nodes[0].Hashes[1] = "mutated"
	if nl2.Nodes[0].Licenses[0] != "MIT" || nl2.Nodes[0].Hashes[1] != "x" {
		t.Fatalf("mutating the union result changed the second operand: %v %v", nl2.Nodes[0].Licenses, nl2.Nodes[0].Hashes)
	}
}

func TestVerifC12IntersectUpdateLeak(t *testing.T) {
	nl := &NodeList{Nodes: []*Node{{Id: "a"}}}
	nl2 := &NodeList{Nodes: []*Node{{Id: "a", Licenses: []string{"MIT"}}}}
	u := nl.Intersect(nl2)
	u.Nodes[0].Licenses[0] = "mutated"
	if nl2.Nodes[0].Licenses[0] != "MIT" {
		t.Fatalf("mutating the intersection result changed the second operand")
	}
}
