package sbom

import "testing"

// C14/C13 finding: ExternalReference.flatString ignores the reference's hashes, so
// two nodes whose external references differ only in a hash compare equal and
// Diff reports no difference.
func TestVerifC14ExternalReferenceHashesInvisible(t *testing.T) {
	a := &Node{Id: "n", ExternalReferences: []*ExternalReference{{Url: "https://example.com/x", Type: ExternalReference_WEBSITE, Hashes: map[int32]string{int32(HashAlgorithm_SHA256): "aaaa"}}}}
	b := &Node{Id: "n", ExternalReferences: []*ExternalReference{{Url: "https://example.com/x", Type: ExternalReference_WEBSITE, Hashes: map[int32]string{int32(HashAlgorithm_SHA256): "bbbb"}}}}
	if a.Equal(b) {
		t.Errorf("nodes whose external references differ in a hash compare equal")
	}
	if d := a.Diff(b); d == nil || d.DiffCount == 0 {
		t.Errorf("Diff reports no difference although an external reference hash differs: %+v", d)
	}
}
