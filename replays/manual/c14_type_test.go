package sbom

import "testing"

// C14 known finding: a change of node kind FILE -> PACKAGE cannot be rebuilt from the diff,
// because Added.Type == PACKAGE is the zero value and Removed.Type is never set.
func TestVerifC14TypeNotReconstructible(t *testing.T) {
	n := &Node{Id: "a", Type: Node_FILE}
	n2 := &Node{Id: "a", Type: Node_PACKAGE}
	d := n.Diff(n2)
	if d == nil {
		t.Fatal("difference not reported")
	}
	rebuilt := n.Type
	if d.Removed.Type != 0 {
		rebuilt = 0
	} else if d.Added.Type != 0 {
		rebuilt = d.Added.Type
	}
	if rebuilt != n2.Type {
		t.Fatalf("second node's kind cannot be rebuilt from the first node and the diff: got %v want %v (Added.Type=%v Removed.Type=%v)", rebuilt, n2.Type, d.Added.Type, d.Removed.Type)
	}
}
