package sbom

import "testing"

// C15/C08: NodeDescendants with maxDepth <= 0 returns a list whose root element
// names the start node although the list holds no node at all (ill-formed:
// the root names an absent node; the start node is within distance 0 of itself).
func TestVerifC15DescendantsDepthZero(t *testing.T) {
	nl := &NodeList{
		Nodes:        []*Node{{Id: "a"}, {Id: "b"}},
		Edges:        []*Edge{{From: "a", Type: Edge_contains, To: []string{"b"}}},
		RootElements: []string{"a"},
	}
	for _, depth := range []int{0, -1} {
		res := nl.NodeDescendants("a", depth)
		ids := map[string]bool{}
		for _, n := range res.Nodes {
			ids[n.Id] = true
		}
		for _, r := range res.RootElements {
			if !ids[r] {
				t.Errorf("depth %d: root element %q names no node of the result (nodes: %v)", depth, r, ids)
			}
		}
	}
}
