package sbom

import "testing"

// C15 (totality on ill-formed graphs): a reachable node with an empty
// identifier makes NodeGraph recurse into NodeSiblings(""), which returns nil,
// and connectedIndexRecursion dereferences that nil list.
func TestVerifC15NodeGraphEmptyID(t *testing.T) {
	nl := &NodeList{
		Nodes:        []*Node{{Id: "a"}, {Id: ""}},
		Edges:        []*Edge{{From: "a", Type: Edge_contains, To: []string{""}}},
		RootElements: []string{"a"},
	}
	defer func() {
		if r := recover(); r != nil {
			t.Fatalf("NodeGraph panicked on a graph with an empty node identifier: %v", r)
		}
	}()
	_ = nl.NodeGraph("a")
}
