package sbom

import "testing"

// C16: the documented rule is "a unique node whose common hash algorithms all
// agree" with HashesMatch as the comparison. A hash entry with an empty value
// (both unserializers store whatever the document carries) made HashesMatch
// report a match that the hash index of GetMatchingNode, which skips empty
// values, can never find: the two halves of the rule disagreed.
func TestVerifC16EmptyHashValue(t *testing.T) {
	a := &Node{Id: "a", Hashes: map[int32]string{1: ""}}
	nl := &NodeList{Nodes: []*Node{a}}
	probe := &Node{Id: "p", Hashes: map[int32]string{1: ""}}
	got, err := nl.GetMatchingNode(probe)
	if err != nil {
		t.Fatal(err)
	}
	hm := a.HashesMatch(probe.Hashes)
	if hm != (got == a) {
		t.Fatalf("HashesMatch says %v for the only node, GetMatchingNode returned %v", hm, got)
	}
}
