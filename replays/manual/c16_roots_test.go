package sbom

import "testing"

// C16: GetRootNodes stops as soon as it has collected as many nodes as there are
// root identifiers; with a repeated identifier in the node list it returns the
// duplicate and misses a later root node.
func TestVerifC16GetRootNodesRepeatedIdentifier(t *testing.T) {
	nl := &NodeList{
		Nodes:        []*Node{{Id: "a", Name: "first"}, {Id: "a", Name: "second"}, {Id: "b"}},
		RootElements: []string{"a", "b"},
	}
	found := map[string]bool{}
	for _, n := range nl.GetRootNodes() {
		found[n.Id] = true
	}
	if !found["b"] {
		t.Fatalf("root node b is missing from GetRootNodes: %v", found)
	}
}
