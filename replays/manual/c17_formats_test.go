package formats

import (
	"strings"
	"sync"
	"testing"
)

// C17 (run with -race): concurrent detection on independent non-JSON streams.
func TestVerifC17SniffRace(t *testing.T) {
	var wg sync.WaitGroup
	for i := 0; i < 8; i++ {
		wg.Add(1)
		go func() {
			defer wg.Done()
			for j := 0; j < 50; j++ {
				s := Sniffer{}
				_, _ = s.SniffReader(strings.NewReader("SPDXVersion: SPDX-2.3\nDataLicense: CC0-1.0\n"))
			}
		}()
	}
	wg.Wait()
}
