package reader

import (
	"sync"
	"testing"

	"github.com/protobom/protobom/pkg/formats"
)

// C17 (run with -race): lookups of the driver registry may run concurrently with registrations.
func TestVerifC17RegistryLookupRace(t *testing.T) {
	var wg sync.WaitGroup
	for i := 0; i < 4; i++ {
		wg.Add(2)
		go func() {
			defer wg.Done()
			for j := 0; j < 200; j++ {
				RegisterUnserializer(formats.Format("x/verif"), nil)
				UnregisterUnserializer(formats.Format("x/verif"))
			}
		}()
		go func() {
			defer wg.Done()
			for j := 0; j < 200; j++ {
				_, _ = GetFormatUnserializer(formats.SPDX23JSON)
			}
		}()
	}
	wg.Wait()
}
