package reader

import (
	"testing"

	"github.com/protobom/protobom/pkg/storage"
)

func TestVerifC18ReaderDefaultsLeak(t *testing.T) {
	ro := &storage.RetrieveOptions{BackendOptions: "x"}
	_ = New(WithRetrieveOptions(ro), WithFormatOptions("k", 1))
	r2 := New()
	if r2.Options.RetrieveOptions == ro {
		t.Errorf("a later New() inherits the retrieve options of an earlier instance")
	}
	if r2.Options.GetFormatOptions("k") != nil {
		t.Errorf("a later New() inherits format options of an earlier instance")
	}
}
