package writer

import (
	"testing"

	"github.com/protobom/protobom/pkg/formats"
)

// C18: configuring one instance never changes another, and New() always yields the defaults.
func TestVerifC18WriterDefaultsLeak(t *testing.T) {
	_ = New(WithFormat(formats.CDX14JSON), WithFormatOptions("k", 1))
	w2 := New()
	if w2.Options.Format != "" {
		t.Errorf("a later New() inherits the format of an earlier instance: %q", w2.Options.Format)
	}
	if w2.Options.GetFormatOptions("k") != nil {
		t.Errorf("a later New() inherits format options of an earlier instance")
	}
}
