package storage

import (
	"os"
	"path/filepath"
	"testing"

	"github.com/protobom/protobom/pkg/sbom"
	"google.golang.org/protobuf/proto"
)

func docWith(id string, nodes int) *sbom.Document {
	d := sbom.NewDocument()
	d.Metadata.Id = id
	for i := 0; i < nodes; i++ {
		d.NodeList.AddNode(&sbom.Node{Id: "node-" + string(rune('a'+i)), Name: "a fairly long node name to make the entry bigger"})
	}
	return d
}

// C19: a missing entry is an error return, not a process exit (the test binary dies with the defect).
func TestVerifC19RetrieveMissingEntry(t *testing.T) {
	fs := &FileSystem{Options: FileSystemOptions{Path: t.TempDir()}}
	doc, err := fs.Retrieve("does-not-exist", nil)
	if err == nil || doc != nil {
		t.Fatalf("expected an error for a missing entry, got doc=%v err=%v", doc, err)
	}
}

// C19: an empty / corrupted entry must not come back as a silently empty document.
func TestVerifC19RetrieveEmptyEntry(t *testing.T) {
	dir := t.TempDir()
	fs := &FileSystem{Options: FileSystemOptions{Path: dir}}
	name, _ := generateDocFileName("some-id")
	if err := os.WriteFile(filepath.Join(dir, name), nil, 0o644); err != nil {
		t.Fatal(err)
	}
	doc, err := fs.Retrieve("some-id", nil)
	if err == nil {
		t.Fatalf("empty entry decoded silently: %v", doc)
	}
}

// C19: a missing directory is created and then usable (search permission for the owner).
func TestVerifC19DirectoryMode(t *testing.T) {
	dir := filepath.Join(t.TempDir(), "store")
	fs := &FileSystem{Options: FileSystemOptions{Path: dir}}
	if err := fs.Store(docWith("id", 1), nil); err != nil {
		t.Fatal(err)
	}
	st, err := os.Stat(dir)
	if err != nil {
		t.Fatal(err)
	}
	if st.Mode().Perm()&0o300 != 0o300 {
		t.Fatalf("storage directory created with mode %o: its owner cannot search/write it", st.Mode().Perm())
	}
}

// C20: every crash state of Store leaves the old or the new document. With an in-place rewrite the
// crash states include every torn prefix of the new bytes on the final path.
func TestVerifC20TornWrite(t *testing.T) {
	dir := t.TempDir()
	fs := &FileSystem{Options: FileSystemOptions{Path: dir}}
	old := docWith("id", 1)
	if err := fs.Store(old, nil); err != nil {
		t.Fatal(err)
	}
	// Observe which paths Store touches while replacing the entry: an atomic store never opens the
	// final path for writing; it creates a sibling and renames it.
	name, _ := generateDocFileName("id")
	final := filepath.Join(dir, name)
	before, _ := os.Stat(final)
	newDoc := docWith("id", 5)
	if err := fs.Store(newDoc, nil); err != nil {
		t.Fatal(err)
	}
	after, _ := os.Stat(final)
	if os.SameFile(before, after) {
		// same inode: the entry was truncated and rewritten in place; replay one torn state
		data, _ := proto.Marshal(newDoc)
		_ = os.WriteFile(final, data[:len(data)/2], 0o644)
		got, err := fs.Retrieve("id", nil)
		if err == nil && got != nil && !proto.Equal(got, old) && !proto.Equal(got, newDoc) {
			t.Fatalf("entry rewritten in place: a crash half-way leaves a torn entry that Retrieve returns without error (%d of 5 nodes)", len(got.GetNodeList().GetNodes()))
		}
		t.Fatalf("entry rewritten in place (same inode): not crash-atomic")
	}
}
