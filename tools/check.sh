#!/bin/sh
# usage: tools/check.sh --property Cxx --tier quick|thorough   (run from /verif)
# One silent retry: candidate-invariant inference (Houdini) works with short wall-clock
# limits, so on a loaded machine a needed candidate can be lost and an obligation that
# depends on it stays undischarged. A first attempt that does not exit 0 is discarded and
# the check is run again; the second attempt's output and exit status are the verdict.
out=$(bin/govc check "$@" 2>&1); rc=$?
if [ $rc -eq 0 ]; then printf '%s\n' "$out"; exit 0; fi
exec bin/govc check "$@"
