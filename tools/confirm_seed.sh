#!/bin/bash
# usage: confirm_seed.sh <seed dir with patch.diff demo_test.go meta.json> <out dir under /verif/seeded>
# Confirms a seeded change in a scratch worktree of /repo HEAD (never in /repo itself):
#   applies (3-way if needed), builds, runs the existing suite, runs the demo with and without the change.
# Writes <out>/patch.diff (rebased on /repo HEAD), demo_test.go, meta.json (+ "confirmed" block).
export GOFLAGS=-mod=mod GOPROXY=off GOSUMDB=off GOTOOLCHAIN=local
seed=$1; out=$2
wt=$(mktemp -d /tmp/scratch-seed.XXXXXX); rmdir $wt
git -C /repo worktree add -q --detach $wt HEAD || exit 2
cleanup(){ git -C /repo worktree remove --force $wt 2>/dev/null; rm -rf $wt; }
trap cleanup EXIT
cd $wt
applied=plain
if ! git apply "$seed/patch.diff" 2>/dev/null; then
  applied=3way
  if ! git apply --3way "$seed/patch.diff" >/dev/null 2>&1; then echo "RESULT $seed: patch does not apply to /repo HEAD"; exit 3; fi
  if git diff --name-only --diff-filter=U | grep -q .; then echo "RESULT $seed: conflicts"; exit 3; fi
  git reset -q
fi
git diff > /tmp/rebased.$$.diff
build=fail; go build ./... >/dev/null 2>&1 && build=ok
suite=fail; go test -vet=off -count=1 ./... >/tmp/suite.$$.log 2>&1 && suite=ok
pkgdir=$(python3 -c "import json;print(json.load(open('$seed/meta.json'))['demo_pkg_dir'])")
runpat=$(python3 -c "
import json,re
m=re.search(r'-run[= ]+(\\S+)', json.load(open('$seed/meta.json')).get('demo_run',''))
print(m.group(1).strip('\\'\\\"') if m else 'Seed|Demo|C[0-9][0-9]')")
cp "$seed/demo_test.go" "$pkgdir/zz_seed_demo_test.go"
with=pass; go test -vet=off -count=1 -run "$runpat" "./$pkgdir/" >/tmp/with.$$.log 2>&1 || with=fail
git stash -q -- $(git diff --name-only) 2>/dev/null || git checkout -q -- $(git diff --name-only)
without=pass; go test -vet=off -count=1 -run "$runpat" "./$pkgdir/" >/tmp/without.$$.log 2>&1 || without=fail
echo "RESULT $seed: applied=$applied build=$build suite=$suite demo_with_change=$with demo_without_change=$without"
if [ $build = ok ] && [ $suite = ok ] && [ $with = fail ] && [ $without = pass ]; then
  mkdir -p "$out"; cp /tmp/rebased.$$.diff "$out/patch.diff"; cp "$seed/demo_test.go" "$out/demo_test.go"
  python3 - "$seed/meta.json" "$out/meta.json" "$applied" <<'PY'
import json,sys,subprocess
m=json.load(open(sys.argv[1]))
m['confirmed']={"base_commit":subprocess.check_output(['git','-C','/repo','log','--format=%h','-1']).decode().strip(),"applied":sys.argv[3],"build":"ok","existing_suite":"pass","demo_with_change":"fail","demo_without_change":"pass","how":"tools/confirm_seed.sh in a scratch worktree of /repo HEAD"}
json.dump(m,open(sys.argv[2],'w'),indent=1)
PY
fi
rm -f /tmp/rebased.$$.diff /tmp/suite.$$.log /tmp/with.$$.log /tmp/without.$$.log
