#!/usr/bin/env python3
"""Regenerates /verif/MANIFEST.json from tools/claims.json (what is claimed) and properties.jsonl."""
import json, subprocess, os
V = '/verif'
claims = json.load(open(f'{V}/tools/claims.json'))
props = [json.loads(l) for l in open(f'{V}/properties.jsonl')]
base = json.load(open('/root/.vp/BASELINE.json'))
try:
    commits = subprocess.check_output(['git', '-C', '/repo', 'log', '--format=%H %s'], text=True).splitlines()
    hook_commits = [c.split()[0] for c in commits if ' verif:' in c or c.split(' ', 1)[1].startswith('verif:')]
except Exception:
    hook_commits = []
env = 'GOFLAGS=-mod=mod GOPROXY=off GOSUMDB=off GOTOOLCHAIN=local'
m = {
    'version': 1,
    'setup_cmd': f'cd /verif/govc && {env} go build -o /verif/bin/govc .',
    'hooks': {
        'guard': 'verif',
        'enable': 'contracts are comment-only files (//go:build verif, package clause, //@ lines) named contracts_verif.go in the package directories of /repo; govc reads them as text, the Go build never compiles them (tag off); mirror in /verif/contracts is used when a file is missing',
        'baseline_off_cmd': base['cmd'],
        'source_commits': hook_commits,
        'add_only': True,
    },
    'engines': [{
        'name': 'govc',
        'path': '/verif/govc',
        'serves_properties': sorted(claims['checks'].keys()),
        'kind_free_text': 'home-built deductive verifier for a subset of Go: go/packages + go/ssa front end over /repo working tree, Gobra-style contracts in comment-only files, weakest-precondition style VC generation per function (callers use callee contracts; loops cut at invariants, frame/ownership invariants inferred by Houdini), obligations discharged by z3 5.1.0 / cvc5 1.0.3 / z3 4.8.12',
    }],
    'checks': [],
    'not_applicable': [],
    'notes': claims.get('notes', ''),
}
for p in props:
    pid = p['id']
    c = claims['checks'].get(pid)
    if c is None:
        m['not_applicable'].append({'property_id': pid, 'reason': claims['not_applicable'].get(pid, 'contracts for this property are not written yet; no other technique is substituted')})
        continue
    m['checks'].append({
        'property_id': pid,
        'quick_cmd': f'tools/check.sh --property {pid} --tier quick',
        'thorough_cmd': f'bin/govc check --property {pid} --tier thorough',
        'evidence_file': f'/verif/evidence/{pid}.json',
        'replay_cmd_template': 'bin/govc replay {path}',
        'engine': 'govc',
        'level_claimed': {'category': c.get('category', 'proof'), 'text': c['text'], 'design_ref': c.get('design_ref', 'DESIGN.md section 3 ' + pid)},
        'level_note': c['note'],
        'technique': c.get('technique', 'contract-based deductive verification (VCs from go/ssa, SMT)'),
    })
json.dump(m, open(f'{V}/MANIFEST.json', 'w'), indent=1)
print('checks:', [c['property_id'] for c in m['checks']], 'n/a:', len(m['not_applicable']))
