#!/bin/sh
# usage: overlaytest.sh <pkg dir relative to /repo> <test file> [-run regex] [extra go test flags]
# Injects the test file into the package with go test -overlay (nothing is written to /repo).
set -e
export GOFLAGS=-mod=mod GOPROXY=off GOSUMDB=off GOTOOLCHAIN=local
REPO=${REPO:-/repo}
pkg=$1; tf=$2; shift 2
tmp=$(mktemp -d /var/tmp/ovl.XXXXXX)
trap 'rm -rf "$tmp"' EXIT
name=$(basename "$tf")
printf '{"Replace": {"%s/%s/zz_verif_%s": "%s"}}\n' "$REPO" "$pkg" "$name" "$(readlink -f "$tf")" > "$tmp/ov.json"
cd "$REPO" && go test -overlay "$tmp/ov.json" -vet=off -count=1 -timeout 120s "$@" "./$pkg/"
