#!/bin/bash
# runs tools/run_seed.sh for every seeded change (2 at a time), then regenerates seeded/RESULTS.md
cd /verif
ls -d seeded/*/ | sed 's:/$::' | xargs -P 2 -I{} tools/run_seed.sh {} 
python3 tools/seed_table.py
