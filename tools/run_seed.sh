#!/bin/bash
# usage: run_seed.sh <seeded/<name>>   — runs the property's quick check against a scratch
# worktree of /repo HEAD with the seeded change applied; writes <seed>/result.json
export GOFLAGS=-mod=mod GOPROXY=off GOSUMDB=off GOTOOLCHAIN=local
seed=$(readlink -f $1); name=$(basename $seed)
prop=$(python3 -c "import json;print(json.load(open('$seed/meta.json'))['property'])")
comp=$(python3 -c "import json;print(' '.join(json.load(open('/verif/seeded/companions.json')).get('$name',[])))" 2>/dev/null)
props="$prop $comp ${EXTRA_PROPS:-}"
wt=$(mktemp -d /tmp/scratch-run.XXXXXX); rmdir $wt
git -C /repo worktree add -q --detach $wt HEAD || exit 2
trap 'git -C /repo worktree remove --force $wt 2>/dev/null; rm -rf $wt' EXIT
git -C $wt apply $seed/patch.diff || { echo "$name: patch does not apply"; exit 3; }
out=""
for p in $props; do
  /verif/bin/govc check --property $p --repo $wt --no-evidence --replay-dir /tmp/replays-seed > /tmp/run_seed_$name.$p.out 2>&1
  rc=$?
  nv=$(grep -c '^VIOLATION' /tmp/run_seed_$name.$p.out)
  first=$(grep 'undischarged' /tmp/run_seed_$name.$p.out | grep -v 'status=unsupported' | grep -v '/COVER#' | head -3 | sed -E 's/^ *undischarged: //; s/ \[.*//' | cut -c1-200 | python3 -c "import sys,json;print(json.dumps([l.strip() for l in sys.stdin]))")
  nuns=$(grep 'undischarged' /tmp/run_seed_$name.$p.out | grep -c 'status=unsupported')
  why=$(grep -m1 'status=unsupported' /tmp/run_seed_$name.$p.out | sed -E 's/.*status=unsupported //' | cut -c1-160 | python3 -c "import sys,json;print(json.dumps(sys.stdin.read().strip()))")
  echo "$name $p exit=$rc violations=$nv"
  out="$out{\"property\":\"$p\",\"exit\":$rc,\"violations\":$nv,\"unsupported\":$nuns,\"unsupported_reason\":$why,\"first_failed_obligations\":$first},"
done
python3 - "$seed" "[${out%,}]" <<'PY'
import json,sys,subprocess
seed=sys.argv[1]; res=json.loads(sys.argv[2])
json.dump({"base_commit":subprocess.check_output(['git','-C','/repo','log','--format=%h','-1']).decode().strip(),
 "verif_commit":subprocess.check_output(['git','-C','/verif','log','--format=%h','-1']).decode().strip(),
 "checks":res,"caught":any(r["exit"]==1 and r["violations"]>0 for r in res)}, open(seed+'/result.json','w'), indent=1)
PY
