#!/bin/sh
# Copies the contract mirror into /repo (comment-only, build-tag guarded files).
set -e
for d in /verif/contracts/*/; do
  n=$(basename "$d"); pkg=$(echo "$n" | sed 's/__/\//g')
  [ -f "$d/contracts_verif.go" ] || continue
  cp "$d/contracts_verif.go" "/repo/$pkg/contracts_verif.go"
done
cd /repo && git status --short
