#!/bin/sh
# usage: try_seed.sh <seed dir containing patch.diff> <property> [more properties]
# Applies the patch to /repo, runs the quick checks, and restores /repo.
seed=$1; shift
cd /repo || exit 2
if [ -n "$(git status --porcelain --untracked-files=no)" ]; then echo "/repo not clean"; exit 2; fi
git apply "$seed/patch.diff" 2>/dev/null || git apply --3way "$seed/patch.diff" 2>/dev/null || { echo "patch does not apply"; git reset -q --hard HEAD; exit 2; }
trap 'cd /repo && git reset -q --hard HEAD' EXIT
cd /verif
for p in "$@"; do
  bin/govc check --property $p --no-evidence > /tmp/try_seed_$p.out 2>&1
  rc=$?
  echo "== $p exit=$rc $(grep -c '^VIOLATION' /tmp/try_seed_$p.out) violations"
  grep -E "undischarged" /tmp/try_seed_$p.out | sed -E 's/status=.*//' | head -8
  tail -1 /tmp/try_seed_$p.out
done
